"""Typed symbolic values for the pyvc verification-condition generator.

A symbolic value V pairs a *static Python-level type* (known on the current path) with an SMT
term (z3 AST) or, for purely structural values (records, tuples, callables), a Python object.
Values whose Python type is not known statically are *boxed* in the tagged sum PV.
"""
import z3

# ---------------------------------------------------------------------------------------------
# static types


class Ty:
    __slots__ = ('kind', 'args')

    def __init__(self, kind, *args):
        self.kind = kind
        self.args = args

    def __eq__(self, o):
        return isinstance(o, Ty) and self.kind == o.kind and self.args == o.args

    def __hash__(self):
        return hash((self.kind, self.args))

    def __repr__(self):
        return self.kind + (repr(list(self.args)) if self.args else '')


INT, BOOL, REAL, STR = Ty('int'), Ty('bool'), Ty('real'), Ty('str')
BYTES, BYTEARRAY, NONE, ANY = Ty('bytes'), Ty('bytearray'), Ty('none'), Ty('any')
JSON = Ty('json')          # dict/list of JSON-native data, uninterpreted sort JV
REC = Ty('rec')            # python-side dict with constant string keys -> V
TUP = Ty('tup')            # python-side tuple of V
FN = Ty('fn')              # python-side callable descriptor
EXC = Ty('exc')            # exception instance (python-side Raise object)
MOD = Ty('mod')            # python-side module / namespace descriptor


def Ref(cls, opt=False):
    """Object reference; `opt` = may be None (represented by id 0)."""
    return Ty('ref', cls, 'opt') if opt else Ty('ref', cls)


def is_opt(ty):
    return ty.kind in ('ref', 'opaque') and len(ty.args) > 1


def Opaque(name, opt=False):
    """An object whose state is not modelled; identity is an Int (`opt`: 0 = None)."""
    return Ty('opaque', name, 'opt') if opt else Ty('opaque', name)


def List(elem):
    return Ty('list', elem)


def Dict(k, v):
    return Ty('dict', k, v)


SS_T = Ty('ss')            # (str, str) tuple as SMT datatype SS


# ---------------------------------------------------------------------------------------------
# SMT sorts

JV = z3.DeclareSort('JV')
SS = z3.Datatype('SS')
SS.declare('mkss', ('ss0', z3.StringSort()), ('ss1', z3.StringSort()))
SS = SS.create()

PV = z3.Datatype('PV')
PV.declare('pnone')
PV.declare('pb', ('bv', z3.BoolSort()))
PV.declare('pi', ('iv', z3.IntSort()))
PV.declare('pr', ('rv', z3.RealSort()))
PV.declare('ps', ('sv', z3.StringSort()))
PV.declare('py', ('yv', z3.StringSort()))        # bytes
PV.declare('pya', ('yav', z3.StringSort()))      # bytearray
PV.declare('pj', ('jv', JV))                     # dict / list JSON value
PV.declare('po', ('ov', z3.IntSort()))           # any other object (reference)
PV.declare('pls', ('lsv', z3.SeqSort(z3.StringSort())))   # list of str
PV = PV.create()

anylist_id = z3.Function('anylist_id', z3.SeqSort(PV), z3.IntSort())
j_isdict = z3.Function('j_isdict', JV, z3.BoolSort())     # dict vs list
o_callable = z3.Function('o_callable', z3.IntSort(), z3.BoolSort())


EXTRA_SORTS = {}      # type kind -> SMT sort (registered by library modules)


def sort_of(ty):
    k = ty.kind
    if k in EXTRA_SORTS:
        return EXTRA_SORTS[k]
    if k == 'int' or k == 'ref' or k == 'opaque':
        return z3.IntSort()
    if k == 'bool':
        return z3.BoolSort()
    if k == 'real':
        return z3.RealSort()
    if k in ('str', 'bytes', 'bytearray'):
        return z3.StringSort()
    if k in ('any', 'none'):
        return PV
    if k == 'json':
        return JV
    if k == 'ss':
        return SS
    if k == 'list':
        return z3.SeqSort(sort_of(ty.args[0]))
    raise TypeError('no SMT sort for %r' % (ty,))


class V:
    """A typed symbolic value."""
    __slots__ = ('ty', 't', 'origin')

    def __init__(self, ty, t, origin=None):
        self.ty = ty
        self.t = t
        self.origin = origin      # 'Class.attr' / 'module.name' when the value IS a shared
                                  # module- or class-level mutable object (aliasing matters)

    def __repr__(self):
        return 'V(%r, %s)' % (self.ty, self.t)


VNONE = V(NONE, None)


def vint(x):
    return V(INT, z3.IntVal(x) if isinstance(x, int) else x)


def vbool(x):
    return V(BOOL, z3.BoolVal(x) if isinstance(x, bool) else x)


def vstr(x):
    return V(STR, z3.StringVal(x) if isinstance(x, str) else x)


def vbytes(x):
    if isinstance(x, (bytes, bytearray)):
        x = z3.StringVal(x.decode('latin-1'))
    return V(BYTES, x)


def vreal(x):
    return V(REAL, z3.RealVal(x) if isinstance(x, (int, float)) else x)


def const_to_v(c):
    """A Python constant to a V."""
    if c is None:
        return VNONE
    if isinstance(c, bool):
        return vbool(c)
    if isinstance(c, int):
        return vint(c)
    if isinstance(c, float):
        return vreal(c)
    if isinstance(c, str):
        return vstr(c)
    if isinstance(c, bytes):
        return vbytes(c)
    if isinstance(c, (list, tuple)) and all(isinstance(x, str) for x in c):
        t = z3.Empty(z3.SeqSort(z3.StringSort()))
        for x in c:
            t = z3.Concat(t, z3.Unit(z3.StringVal(x)))
        if not c:
            t = z3.Empty(z3.SeqSort(z3.StringSort()))
        return V(List(STR), t)
    if isinstance(c, list) and c and all(isinstance(x, tuple) and len(x) == 2 and
                                         all(isinstance(y, str) for y in x) for x in c):
        t = None
        for a, b in c:
            u = z3.Unit(SS.mkss(z3.StringVal(a), z3.StringVal(b)))
            t = u if t is None else z3.Concat(t, u)
        return V(List(SS_T), t)
    if isinstance(c, dict):
        return V(REC, {k: const_to_v(x) for k, x in c.items()})
    if isinstance(c, tuple):
        return V(TUP, tuple(const_to_v(x) for x in c))
    raise TypeError('unsupported constant %r' % (c,))


def box(v):
    """V -> PV term."""
    k = v.ty.kind
    if k == 'any':
        return v.t
    if k == 'none':
        return PV.pnone
    if k == 'bool':
        return PV.pb(v.t)
    if k == 'int':
        return PV.pi(v.t)
    if k == 'real':
        return PV.pr(v.t)
    if k == 'str':
        return PV.ps(v.t)
    if k == 'bytes':
        return PV.py(v.t)
    if k == 'bytearray':
        return PV.pya(v.t)
    if k == 'json':
        return PV.pj(v.t)
    if k in ('ref', 'opaque') and is_opt(v.ty):
        return z3.If(v.t == 0, PV.pnone, PV.po(v.t))
    if k in ('ref', 'opaque'):
        return PV.po(v.t)
    if k == 'list' and v.ty.args[0] == STR:
        return PV.pls(v.t)
    if k == 'list' and v.ty.args[0] == ANY:
        # a list with non-string elements: kept as an abstract object (its identity is a
        # function of its content; negative ids are disjoint from heap references)
        return PV.po(-1 - anylist_id(v.t))
    raise TypeError('cannot box %r' % (v,))


# tag name -> (recogniser, accessor, static type)
TAGS = [
    ('none', PV.is_pnone, None, NONE),
    ('bool', PV.is_pb, PV.bv, BOOL),
    ('int', PV.is_pi, PV.iv, INT),
    ('real', PV.is_pr, PV.rv, REAL),
    ('str', PV.is_ps, PV.sv, STR),
    ('bytes', PV.is_py, PV.yv, BYTES),
    ('bytearray', PV.is_pya, PV.yav, BYTEARRAY),
    ('json', PV.is_pj, PV.jv, JSON),
    ('obj', PV.is_po, PV.ov, Opaque('object')),
    ('liststr', PV.is_pls, PV.lsv, List(STR)),
]


def unbox(t, ty):
    """PV term -> V of static type ty (caller has established the tag)."""
    k = ty.kind
    if k == 'any':
        return V(ANY, t)
    if k == 'none':
        return VNONE
    acc = {'bool': PV.bv, 'int': PV.iv, 'real': PV.rv, 'str': PV.sv, 'bytes': PV.yv,
           'bytearray': PV.yav, 'json': PV.jv, 'ref': PV.ov, 'opaque': PV.ov}.get(k)
    if acc is not None:
        return V(ty, z3.simplify(acc(t)))
    if k == 'list' and ty.args[0] == STR:
        return V(ty, z3.simplify(PV.lsv(t)))
    raise TypeError('cannot unbox to %r' % (ty,))


def tag_test(t, ty):
    """Bool term: PV term t has the tag of static type ty."""
    k = ty.kind
    rec = {'none': PV.is_pnone, 'bool': PV.is_pb, 'int': PV.is_pi, 'real': PV.is_pr,
           'str': PV.is_ps, 'bytes': PV.is_py, 'bytearray': PV.is_pya, 'json': PV.is_pj,
           'ref': PV.is_po, 'opaque': PV.is_po}.get(k)
    if rec is not None:
        return rec(t)
    if k == 'list' and ty.args[0] == STR:
        return PV.is_pls(t)
    raise TypeError('no tag for %r' % (ty,))


def truth(v):
    """Python truthiness of v as a z3 Bool (total)."""
    k = v.ty.kind
    if k == 'bool':
        return v.t
    if k == 'none':
        return z3.BoolVal(False)
    if k == 'int':
        return v.t != 0
    if k == 'real':
        return v.t != 0
    if k in ('str', 'bytes', 'bytearray'):
        return z3.Length(v.t) > 0
    if k == 'list':
        if v.t is None:             # the untyped empty list literal
            return z3.BoolVal(False)
        return z3.Length(v.t) > 0
    if k in ('ref', 'opaque') and is_opt(v.ty):
        return v.t != 0
    if k in ('ref', 'opaque', 'fn', 'mod', 'exc'):
        return z3.BoolVal(True)
    if k == 'json':
        return j_nonempty(v.t)
    if k == 'rec':
        return z3.BoolVal(len(v.t) > 0)
    if k == 'tup':
        return z3.BoolVal(len(v.t) > 0)
    if k == 'dict':
        return dict_nonempty(v)
    if k == 'any':
        t = v.t
        return z3.If(PV.is_pnone(t), False,
               z3.If(PV.is_pb(t), PV.bv(t),
               z3.If(PV.is_pi(t), PV.iv(t) != 0,
               z3.If(PV.is_pr(t), PV.rv(t) != 0,
               z3.If(PV.is_ps(t), z3.Length(PV.sv(t)) > 0,
               z3.If(PV.is_py(t), z3.Length(PV.yv(t)) > 0,
               z3.If(PV.is_pya(t), z3.Length(PV.yav(t)) > 0,
               z3.If(PV.is_pj(t), j_nonempty(PV.jv(t)),
               z3.If(PV.is_pls(t), z3.Length(PV.lsv(t)) > 0, True)))))))))
    raise TypeError('truth of %r' % (v,))


j_nonempty = z3.Function('j_nonempty', JV, z3.BoolSort())


def dict_nonempty(v):
    # a symbolic dict is (dom, map); its size is the uninterpreted cardinality of dom
    from . import lib
    return lib.card(v.t[0]) > 0


def same_sort_merge(c, a, b):
    """ite over two V's; boxes when static types differ."""
    if a.ty == b.ty and a.ty.kind not in ('rec', 'tup', 'fn', 'mod', 'none', 'dict', 'exc'):
        return V(a.ty, z3.If(c, a.t, b.t))
    if a.ty.kind == 'none' and b.ty.kind == 'none':
        return a
    if a.ty.kind == 'rec' and b.ty.kind == 'rec' and a.t.keys() == b.t.keys():
        return V(REC, {k: same_sort_merge(c, a.t[k], b.t[k]) for k in a.t})
    if a.ty.kind == 'tup' and b.ty.kind == 'tup' and len(a.t) == len(b.t):
        return V(TUP, tuple(same_sort_merge(c, x, y) for x, y in zip(a.t, b.t)))
    if a.ty.kind in ('int', 'bool') and b.ty.kind == 'real' or \
            a.ty.kind == 'real' and b.ty.kind in ('int', 'bool'):
        pass
    return V(ANY, z3.If(c, box(a), box(b)))
