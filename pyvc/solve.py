"""Discharging obligations: z3 (in process) first, cvc5 (CLI, SMT-LIB 2.6 text) for what z3
leaves open, z3 CLI as an optional cross-check. Verdicts: unsat = discharged, sat = refuted,
unknown = undecided (never reported as a violation)."""
import os
import re
import subprocess
import tempfile
import time
import z3

CVC5 = '/usr/bin/cvc5'
Z3CLI = 'z3-new'


def to_smt2(premises, goal):
    s = z3.Solver()
    for p in premises:
        s.add(p)
    s.add(z3.Not(goal))
    txt = s.to_smt2()
    # py_replace_all is SMT-LIB's str.replace_all (z3py cannot build that term directly)
    if 'py_replace_all' in txt:
        txt = re.sub(r'\(declare-fun py_replace_all \(String String String\) String\)\n', '', txt)
        txt = txt.replace('py_replace_all', 'str.replace_all')
    return '(set-logic ALL)\n' + txt


def run_cvc5(txt, timeout_s, models=False):
    with tempfile.NamedTemporaryFile('w', suffix='.smt2', delete=False) as f:
        f.write(txt)
        path = f.name
    try:
        t0 = time.time()
        args = [CVC5, '--strings-exp', '--tlimit=%d' % int(timeout_s * 1000)]
        try:
            p = subprocess.run(args + [path], capture_output=True, text=True,
                               timeout=timeout_s + 5)
            out = p.stdout.strip().splitlines()
            res = out[0].strip() if out else 'unknown'
        except subprocess.TimeoutExpired:
            res = 'unknown'
        if res not in ('sat', 'unsat', 'unknown'):
            res = 'unknown'
        return res, time.time() - t0
    finally:
        os.unlink(path)


def run_z3cli(txt, timeout_s):
    with tempfile.NamedTemporaryFile('w', suffix='.smt2', delete=False) as f:
        f.write(txt)
        path = f.name
    try:
        t0 = time.time()
        try:
            p = subprocess.run([Z3CLI, '-T:%d' % int(timeout_s), path], capture_output=True,
                               text=True, timeout=timeout_s + 5)
            out = p.stdout.strip().splitlines()
            res = out[0].strip() if out else 'unknown'
        except subprocess.TimeoutExpired:
            res = 'unknown'
        if res not in ('sat', 'unsat', 'unknown'):
            res = 'unknown'
        return res, time.time() - t0
    finally:
        os.unlink(path)


def model_values(model, inputs):
    out = {}
    for name, c in inputs.items():
        try:
            v = model.eval(c, model_completion=False)
        except z3.Z3Exception:
            continue
        if v is None or v.eq(c):
            continue
        s = None
        try:
            if z3.is_string_value(v):
                s = {'str': v.as_string()}
            elif z3.is_int_value(v):
                s = {'int': v.as_long()}
            elif z3.is_true(v) or z3.is_false(v):
                s = {'bool': z3.is_true(v)}
            elif z3.is_rational_value(v):
                s = {'real': [v.numerator_as_long(), v.denominator_as_long()]}
            else:
                txt = v.sexpr()
                if len(txt) < 2000:
                    s = {'sexpr': txt}
        except Exception:
            s = None
        if s is not None:
            out[name] = s
    return out


def solve(o, z3_ms=4000, cvc5_s=15, want_model=True, crosscheck=False, extra_eval=None):
    """-> dict(status, backend, time_s, model)"""
    t0 = time.time()
    uses_replace = None
    s = z3.Solver()
    s.set('timeout', z3_ms)
    for p in o.premises:
        s.add(p)
    s.add(z3.Not(o.goal))
    r = s.check()
    tz = time.time() - t0
    res = {'status': 'unknown', 'backend': 'z3-5.1(py)', 'time_s': tz, 'model': None,
           'tried': ['z3']}
    if r == z3.unsat:
        res['status'] = 'unsat'
        if crosscheck:
            txt = to_smt2(o.premises, o.goal)
            r2, t2 = run_cvc5(txt, cvc5_s)
            res['crosscheck'] = {'cvc5': r2, 'time_s': t2}
        return res
    txt = to_smt2(o.premises, o.goal)
    uses_replace = 'str.replace_all' in txt
    if r == z3.sat and not uses_replace:
        res['status'] = 'sat'
        if want_model:
            m = s.model()
            res['model'] = model_values(m, o.inputs)
            if extra_eval:
                for k, t in extra_eval.items():
                    try:
                        res['model']['$' + k] = {'sexpr': m.eval(t, model_completion=True).sexpr()}
                    except Exception:
                        pass
        return res
    # z3 undecided (or its answer relies on an uninterpreted stand-in): ask cvc5
    r2, t2 = run_cvc5(txt, cvc5_s)
    res['tried'].append('cvc5')
    if r2 in ('sat', 'unsat'):
        res.update(status=r2, backend='cvc5-1.0.3', time_s=tz + t2)
        if r2 == 'sat' and r == z3.sat and want_model:
            res['model'] = model_values(s.model(), o.inputs)
        return res
    if uses_replace:
        r3, t3 = run_z3cli(txt, max(5, z3_ms // 1000))
        res['tried'].append('z3cli')
        if r3 in ('sat', 'unsat'):
            res.update(status=r3, backend='z3-5.1(cli)', time_s=tz + t2 + t3)
            return res
    res['time_s'] = time.time() - t0
    return res
