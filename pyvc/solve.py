"""Discharging obligations: z3 (in process) first, cvc5 (CLI, SMT-LIB 2.6 text) for what z3
leaves open, z3 CLI as an optional cross-check. Verdicts: unsat = discharged, sat = refuted,
unknown = undecided (never reported as a violation)."""
import os
import sys
import re
import subprocess
import tempfile
import time
import z3

CVC5 = '/usr/bin/cvc5'
Z3CLI = 'z3-new'


def to_smt2(premises, goal):
    s = z3.Solver()
    for p in premises:
        s.add(p)
    s.add(z3.Not(goal))
    txt = s.to_smt2()
    # py_replace_all is SMT-LIB's str.replace_all (z3py cannot build that term directly)
    if 'py_replace_all' in txt:
        txt = re.sub(r'\(declare-fun py_replace_all \(String String String\) String\)\n', '', txt)
        txt = txt.replace('py_replace_all', 'str.replace_all')
    # z3-internal names of seq.nth after simplification (in-range / out-of-range split)
    if 'seq.nth_' in txt:
        txt = re.sub(r'\(declare-fun seq\.nth_[iu][^\n]*\n', '', txt)
        txt = txt.replace('seq.nth_i', 'seq.nth').replace('seq.nth_u', 'seq.nth')
    # no (set-logic ...): z3 5.1 answered `sat` on an unsat string problem when given
    # (set-logic ALL); cvc5 only prints a warning without it
    return txt


def run_cvc5(txt, timeout_s, models=False):
    with tempfile.NamedTemporaryFile('w', suffix='.smt2', delete=False) as f:
        f.write(txt)
        path = f.name
    try:
        t0 = time.time()
        args = [CVC5, '--strings-exp', '--tlimit=%d' % int(timeout_s * 1000)]
        try:
            p = subprocess.run(args + [path], capture_output=True, text=True,
                               timeout=timeout_s + 5)
            out = p.stdout.strip().splitlines()
            res = out[0].strip() if out else 'unknown'
            if res.startswith('(error'):
                sys.stderr.write('cvc5 rejected a query: %s\n' % res[:300])
                if os.environ.get('PYVC_KEEP_BAD'):
                    import shutil
                    shutil.copy(path, os.environ['PYVC_KEEP_BAD'])
        except subprocess.TimeoutExpired:
            res = 'unknown'
        if res not in ('sat', 'unsat', 'unknown'):
            res = 'unknown'
        return res, time.time() - t0
    finally:
        os.unlink(path)


def run_z3cli(txt, timeout_s):
    with tempfile.NamedTemporaryFile('w', suffix='.smt2', delete=False) as f:
        f.write(txt)
        path = f.name
    try:
        t0 = time.time()
        try:
            p = subprocess.run([Z3CLI, '-T:%d' % int(timeout_s), 'model_validate=true', path],
                               capture_output=True, text=True, timeout=timeout_s + 5)
            out = p.stdout.strip().splitlines()
            res = out[0].strip() if out else 'unknown'
            if res == 'sat' and 'invalid model' in p.stdout:
                res = 'unknown'     # z3 produced a model that does not satisfy the assertions
        except subprocess.TimeoutExpired:
            res = 'unknown'
        if res not in ('sat', 'unsat', 'unknown'):
            res = 'unknown'
        return res, time.time() - t0
    finally:
        os.unlink(path)


def model_values(model, inputs):
    out = {}
    for name, c in inputs.items():
        try:
            v = model.eval(c, model_completion=False)
        except z3.Z3Exception:
            continue
        if v is None or v.eq(c):
            continue
        s = None
        try:
            if z3.is_string_value(v):
                s = {'str': v.as_string()}
            elif z3.is_int_value(v):
                s = {'int': v.as_long()}
            elif z3.is_true(v) or z3.is_false(v):
                s = {'bool': z3.is_true(v)}
            elif z3.is_rational_value(v):
                s = {'real': [v.numerator_as_long(), v.denominator_as_long()]}
            else:
                txt = v.sexpr()
                if len(txt) < 2000:
                    s = {'sexpr': txt}
        except Exception:
            s = None
        if s is not None:
            out[name] = s
    return out


def export_only(o):
    return {'status': 'unknown', 'backend': '-', 'time_s': 0.0, 'model': None,
            'smt2': to_smt2(o.premises, o.goal), 'untried': True}


def solve_quick(o, z3_ms=1500, want_model=True, on_model=None):
    """Stage 1 (in the generating process): a short z3 attempt. Returns a result dict; when the
    verdict is still open, res['smt2'] carries the SMT-LIB text for stage 2."""
    t0 = time.time()
    s = z3.Solver()
    s.set('timeout', z3_ms)
    for p in o.premises:
        s.add(p)
    s.add(z3.Not(o.goal))
    r = s.check()
    tz = time.time() - t0
    res = {'status': 'unknown', 'backend': 'z3-5.1(py)', 'time_s': tz, 'model': None}
    if r == z3.unsat:
        res['status'] = 'unsat'
        return res
    txt = to_smt2(o.premises, o.goal)
    if r == z3.sat:
        # validate the model against the premises (quantified premises stay undecided)
        m = s.model()
        for p in list(o.premises) + [z3.Not(o.goal)]:
            try:
                v = m.eval(p, model_completion=True)
            except z3.Z3Exception:
                continue
            if z3.is_false(v):
                res['invalid_model'] = True
                r = z3.unknown
                break
    if r == z3.sat and 'str.replace_all' not in txt:
        res['status'] = 'sat'
        if want_model:
            res['model'] = model_values(s.model(), o.inputs)
            if on_model is not None:
                res['replay'] = on_model(s.model())
        return res
    if r == z3.sat and want_model:
        res['model'] = model_values(s.model(), o.inputs)
        if on_model is not None:
            res['replay'] = on_model(s.model())
        res['z3_said_sat_modulo_replace_all'] = True
    res['smt2'] = txt
    return res


def solve_text(args):
    """Stage 2 (pool worker): cvc5 and z3 CLI on the SMT-LIB text; first definite answer wins."""
    txt, cvc5_s, z3_s, both = args[:4]
    t0 = time.time()
    if len(args) > 4 and args[4]:
        # not yet tried by z3: a short z3 attempt first
        r0, t0_ = run_z3cli(txt, 5)
        if r0 == 'unsat':
            return {'status': r0, 'backend': 'z3-5.1(cli)', 'time_s': t0_}
        if r0 == 'sat':
            # a refutation must be confirmed by the other solver family
            r1, t1 = run_cvc5(txt, cvc5_s)
            if r1 == 'unsat':
                return {'status': 'disagree', 'backend': 'z3cli=sat,cvc5=unsat',
                        'time_s': t0_ + t1}
            return {'status': 'sat', 'backend': 'z3-5.1(cli)' + ('+cvc5' if r1 == 'sat' else ''),
                    'time_s': t0_ + t1}
    r1, t1 = run_cvc5(txt, cvc5_s)
    out = {'status': 'unknown', 'backend': 'cvc5-1.0.3', 'time_s': t1}
    if r1 in ('sat', 'unsat'):
        out['status'] = r1
        if not both:
            return out
    r2, t2 = run_z3cli(txt, z3_s)
    if both and r1 in ('sat', 'unsat'):
        out['crosscheck'] = {'z3cli': r2, 'time_s': t2}
        if r2 in ('sat', 'unsat') and r2 != r1:
            out['status'] = 'disagree'
        return out
    if r2 in ('sat', 'unsat'):
        out = {'status': r2, 'backend': 'z3-5.1(cli)', 'time_s': t1 + t2}
    else:
        out['time_s'] = time.time() - t0
    return out


def solve(o, z3_ms=4000, cvc5_s=15, want_model=True, crosscheck=False, extra_eval=None):
    """-> dict(status, backend, time_s, model)"""
    t0 = time.time()
    uses_replace = None
    s = z3.Solver()
    s.set('timeout', z3_ms)
    for p in o.premises:
        s.add(p)
    s.add(z3.Not(o.goal))
    r = s.check()
    tz = time.time() - t0
    res = {'status': 'unknown', 'backend': 'z3-5.1(py)', 'time_s': tz, 'model': None,
           'tried': ['z3']}
    if r == z3.unsat:
        res['status'] = 'unsat'
        if crosscheck:
            txt = to_smt2(o.premises, o.goal)
            r2, t2 = run_cvc5(txt, cvc5_s)
            res['crosscheck'] = {'cvc5': r2, 'time_s': t2}
        return res
    txt = to_smt2(o.premises, o.goal)
    uses_replace = 'str.replace_all' in txt
    if r == z3.sat and not uses_replace:
        res['status'] = 'sat'
        if want_model:
            m = s.model()
            res['model'] = model_values(m, o.inputs)
            if extra_eval:
                for k, t in extra_eval.items():
                    try:
                        res['model']['$' + k] = {'sexpr': m.eval(t, model_completion=True).sexpr()}
                    except Exception:
                        pass
        return res
    # z3 undecided (or its answer relies on an uninterpreted stand-in): ask cvc5
    r2, t2 = run_cvc5(txt, cvc5_s)
    res['tried'].append('cvc5')
    if r2 in ('sat', 'unsat'):
        res.update(status=r2, backend='cvc5-1.0.3', time_s=tz + t2)
        if r2 == 'sat' and r == z3.sat and want_model:
            res['model'] = model_values(s.model(), o.inputs)
        return res
    if uses_replace:
        r3, t3 = run_z3cli(txt, max(5, z3_ms // 1000))
        res['tried'].append('z3cli')
        if r3 in ('sat', 'unsat'):
            res.update(status=r3, backend='z3-5.1(cli)', time_s=tz + t2 + t3)
            return res
    res['time_s'] = time.time() - t0
    return res


# ---------------------------------------------------------------------------------------------
# reading counter-models back into Python-level values (for native replay)

def z3_unescape(s):
    """z3 prints non-ASCII / control characters of string values as \\u{hex}."""
    return re.sub(r'\\u\{([0-9a-fA-F]+)\}', lambda m: chr(int(m.group(1), 16)), s)


class ModelReader:
    def __init__(self, eng, model, heap, ghost):
        self.eng = eng
        self.m = model
        self.heap = heap
        self.ghost = ghost
        self.objects = {}

    def ev(self, t):
        return self.m.eval(t, model_completion=True)

    def term(self, t, ty):
        """z3 term of static type ty -> JSON-able description."""
        from .values import PV
        k = ty.kind
        v = self.ev(t)
        if k in ('int',):
            return v.as_long()
        if k == 'bool':
            return z3.is_true(v)
        if k == 'real':
            return {'$real': [v.numerator_as_long(), v.denominator_as_long()]}
        if k == 'str':
            return z3_unescape(v.as_string())
        if k in ('bytes', 'bytearray'):
            return {'$' + k: [ord(ch) % 256 for ch in z3_unescape(v.as_string())]}
        if k == 'none':
            return None
        if k == 'any':
            return self.pv(v)
        if k == 'json':
            return {'$json': str(v)}
        if k == 'opaque':
            return {'$opaque': ty.args[0], 'id': v.as_long()}
        if k == 'ref':
            return self.obj(ty.args[0], v.as_long())
        if k == 'ss':
            return {'$tuple': [z3_unescape(v.arg(0).as_string()),
                               z3_unescape(v.arg(1).as_string())]}
        if k == 'list':
            n = self.ev(z3.Length(t)).as_long()
            return [self.term(t[i], ty.args[0]) for i in range(min(n, 40))]
        return {'$unreadable': str(ty)}

    def pv(self, v):
        from .values import PV
        name = v.decl().name()
        if name == 'pnone':
            return None
        a = v.arg(0)
        if name == 'pb':
            return z3.is_true(a)
        if name == 'pi':
            return a.as_long()
        if name == 'pr':
            return {'$real': [a.numerator_as_long(), a.denominator_as_long()]}
        if name == 'ps':
            return z3_unescape(a.as_string())
        if name == 'py':
            return {'$bytes': [ord(ch) % 256 for ch in z3_unescape(a.as_string())]}
        if name == 'pya':
            return {'$bytearray': [ord(ch) % 256 for ch in z3_unescape(a.as_string())]}
        if name == 'pj':
            return {'$json': str(a), 'isdict': z3.is_true(self.ev(
                __import__('pyvc.values', fromlist=['j_isdict']).j_isdict(a)))}
        if name == 'po':
            return {'$opaque': 'object', 'id': a.as_long()}
        if name == 'pls':
            n = self.ev(z3.Length(a)).as_long()
            return [z3_unescape(self.ev(a[i]).as_string()) for i in range(min(n, 40))]
        return {'$unreadable': name}

    def obj(self, cls, oid, depth=0):
        key = '%s#%d' % (self.eng.reg.root_of(cls), oid)
        if key in self.objects or depth > 3:
            return {'$ref': key}
        d = {'$class': cls}
        self.objects[key] = d
        from .values import V, Ref
        for f, fty in self.eng.reg.all_fields(cls).items():
            if fty.kind in ('dict', 'recf'):
                continue
            try:
                hk = (self.eng.reg.root_of(cls), f)
                arr = self.heap.get(hk)
                if arr is None:
                    from .values import sort_of
                    arr = z3.Const('H_%s_%s' % hk, z3.ArraySort(z3.IntSort(), sort_of(fty)))
                d[f] = self.term(z3.Select(arr, oid), fty)
            except Exception as e:      # unreadable field: leave it out
                d[f] = {'$unreadable': str(e)[:80]}
        return {'$ref': key}

    def params(self, penv):
        out = {}
        for n, v in penv.items():
            if n.startswith('__'):
                continue
            try:
                if v.ty.kind in ('rec', 'tup', 'fn', 'mod', 'dict', 'exc'):
                    continue
                out[n] = self.term(v.t, v.ty)
            except Exception as e:
                out[n] = {'$unreadable': str(e)[:80]}
        return out
