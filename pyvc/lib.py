"""Library contracts (assumed): Python builtins, str/bytes/list/dict operations and the standard
library functions the code under verification calls. Everything here is part of the trusted base
and is listed in the evidence (`Engine.libuse`)."""
import ast
import z3

from .values import *  # noqa
from . import core

S = z3.StringSort()
I = z3.IntSort()
B = z3.BoolSort()
SeqS = z3.SeqSort(S)

BOT = Ty('bot')


def R(cls, line, *args):
    return core.Raise(cls, args, line)


# ---------------------------------------------------------------------------------------------
# uninterpreted library functions with axioms instantiated at the point of use

py_int_ok = z3.Function('py_int_ok', S, B)
py_int = z3.Function('py_int', S, I)
py_lower = z3.Function('py_lower', S, S)
py_strip = z3.Function('py_strip', S, S)
py_strip_c = z3.Function('py_strip_c', S, S, S)
py_split = z3.Function('py_split', S, S, SeqS)
py_rsplit1 = z3.Function('py_rsplit1', S, S, SeqS)
py_rsplit_dot_last = z3.Function('py_rsplit_last', S, S, S)
py_replace_all = z3.Function('py_replace_all', S, S, S, S)
py_str_any = z3.Function('py_str_any', PV, S)
utf8_ok = z3.Function('utf8_ok', S, B)
utf8_dec = z3.Function('utf8_dec', S, S)
utf8_enc = z3.Function('utf8_enc', S, S)
b64enc = z3.Function('b64enc', S, S)             # bytes -> ascii text
b64dec_ok = z3.Function('b64dec_ok', S, B)
b64dec = z3.Function('b64dec', S, S)
json_dumps_c = z3.Function('json_dumps_c', PV, S)   # separators=(',', ':')
json_dumps_d = z3.Function('json_dumps_d', PV, S)   # default separators
json_ok = z3.Function('json_ok', S, B)
json_loads = z3.Function('json_loads', S, PV)
json_rec = z3.Function('json_rec', S, B)            # RecursionError on deep nesting
j_len = z3.Function('j_len', JV, I)
join_sep = z3.Function('join_sep', S, SeqS, S)
_cards = {}


def card(dom):
    key = str(dom.sort())
    if key not in _cards:
        _cards[key] = z3.Function('card_%d' % len(_cards), dom.sort(), I)
    return _cards[key](dom)


def is_ascii_digit(s):
    return z3.And(z3.Length(s) == 1, z3.StringVal('0') <= s, s <= z3.StringVal('9'))


def int_axioms(s):
    """Instances of the assumed contract of int(str)."""
    n = z3.StrToInt(s)
    return [
        z3.Implies(is_ascii_digit(s), z3.And(py_int_ok(s), py_int(s) == n)),
        z3.Implies(z3.And(z3.Length(s) == 1, py_int_ok(s)),
                   z3.And(py_int(s) >= 0, py_int(s) <= 9)),
        z3.Implies(z3.Length(s) == 0, z3.Not(py_int_ok(s))),
        z3.Implies(z3.And(n >= 0, s == z3.IntToStr(n)), z3.And(py_int_ok(s), py_int(s) == n)),
    ]


def lower_axioms(s):
    return [z3.Length(py_lower(s)) == z3.Length(s) if False else z3.BoolVal(True)]


LOWER_FIXED = ['websocket', 'upgrade', 'polling', 'cookie', '']


def split_axioms(s, sep):
    r = py_split(s, sep)
    k = z3.Int('k!split')
    return [
        z3.Length(r) >= 1,
        join_sep(sep, r) == s,
        z3.ForAll([k], z3.Implies(z3.And(k >= 0, k < z3.Length(r)),
                                  z3.Not(z3.Contains(r[k], sep)))),
        z3.Implies(z3.Not(z3.Contains(s, sep)), r == z3.Unit(s)),
        # the first element is the text before the first separator
        z3.PrefixOf(r[0], s),
        z3.Implies(z3.Contains(s, sep), z3.And(
            z3.PrefixOf(z3.Concat(r[0], sep), s), z3.Length(r) >= 2)),
    ]


# ---------------------------------------------------------------------------------------------
# helpers

def lib(name):
    def deco(fn):
        LIB[name] = fn
        return fn
    return deco


def pure(name):
    """A library function that neither forks nor raises: fn(eng, st, *args) -> V"""
    def deco(fn):
        def wrapper(eng, st, args, kwargs, line):
            yield st, fn(eng, st, *args, **kwargs)
        LIB[name] = wrapper
        return fn
    return deco


LIB = {}
LIBM = {}       # (type kind, method name) -> fn(eng, st, recv, args, kwargs, line)


def libm(kind, name):
    def deco(fn):
        for k in (kind if isinstance(kind, tuple) else (kind,)):
            LIBM[(k, name)] = fn
        return fn
    return deco


def fnv(name):
    return V(FN, ('lib', name, LIB[name]))


BUILTIN_TYPES = ('str', 'bytes', 'bytearray', 'int', 'bool', 'float', 'dict', 'list', 'tuple',
                 'object', 'set')
BUILTIN_EXC = ('ValueError', 'KeyError', 'IndexError', 'TypeError', 'OSError', 'Exception',
               'AttributeError', 'RuntimeError', 'KeyboardInterrupt', 'SystemExit',
               'ImportError', 'BaseException', 'RecursionError', 'UnicodeDecodeError',
               'TimeoutError', 'LookupError', 'StopIteration', 'AssertionError', 'GeneratorExit',
               'BrokenPipeError')


def builtin(eng, name):
    if name in LIB:
        return fnv(name)
    if name in BUILTIN_EXC:
        return V(FN, ('excclass', name))
    if name == 'True':
        return vbool(True)
    return None


LIB_ATTRS = {}      # dotted lib module name -> {attr: V or callable(eng)->V}


def lib_attr(eng, modname, attr):
    full = modname + '.' + attr
    if full in LIB:
        return fnv(full)
    if full in LIB_CONST:
        return LIB_CONST[full]
    if full in LIB_EXC:
        return V(FN, ('excclass', LIB_EXC[full]))
    if full in LIB_MODS:
        return V(MOD, ('lib', full))
    raise core.EngineError('no library contract for %s' % full)


LIB_CONST = {}
LIB_EXC = {
    'asyncio.TimeoutError': 'TimeoutError', 'asyncio.CancelledError': 'CancelledError',
    'asyncio.QueueEmpty': 'QueueEmptyLib', 'queue.Empty': 'QueueEmptyLib',
    'websocket.WebSocketConnectionClosedException': 'WebSocketConnectionClosedException',
    'websocket.WebSocketTimeoutException': 'WebSocketTimeoutException',
    'aiohttp.client_exceptions.ServerDisconnectedError': 'ServerDisconnectedError',
    'aiohttp.ClientError': 'ClientError',
    'binascii.Error': 'BinasciiError', 'json.JSONDecodeError': 'JSONDecodeError',
}
LIB_MODS = {'urllib.parse', 'os.path', 'aiohttp.client_exceptions'}


def method(eng, o, attr):
    fn = LIBM.get((o.ty.kind, attr))
    if fn is None and o.ty.kind == 'opaque':
        fn = LIBM.get(('opaque:' + o.ty.args[0], attr))
    if fn is None:
        return None
    return V(FN, ('libm', '%s.%s' % (o.ty.kind if o.ty.kind != 'opaque' else o.ty.args[0], attr),
                  o, fn))


CLASS_METHODS = {}   # (schema class name, attr) -> fn(eng, st, recv, args, kwargs, line)


def class_method(eng, cls, attr, recv):
    fn = CLASS_METHODS.get((cls, attr))
    if fn is None:
        return None
    return V(FN, ('libm', '%s.%s' % (cls, attr), recv, fn))


def await_value(eng, st, v, line):
    """`await v` for a library awaitable that is not a coroutine (set by lib_rt)."""
    yield st, v


OPAQUE_ATTR = {}     # (opaque type name, attribute) -> fn(eng, st, o) -> V  (data attributes)
OPAQUE_CALL = {}     # opaque type name -> fn(eng, st, f, args, kwargs, line)
app_call1 = z3.Function('app_call1', I, PV, PV)
app_call0 = z3.Function('app_call0', I, PV)


def _call_app_object(eng, st, f, args, kwargs, line):
    """An application-supplied callable stored in configuration (CORS predicate, cookie
    attribute): assumed to be a pure function of its argument that does not raise."""
    if kwargs or len(args) > 1:
        raise core.EngineError('application callable form at line %d' % line)
    if args:
        yield st, V(ANY, app_call1(f.t, box(args[0]) if args[0].ty.kind != 'none' else PV.pnone))
    else:
        yield st, V(ANY, app_call0(f.t))


OPAQUE_CALL['object'] = _call_app_object


def call_opaque(eng, st, f, args, kwargs, line):
    fn = OPAQUE_CALL.get(f.ty.args[0])
    if fn is None:
        raise core.EngineError('call of opaque %s has no library contract (line %d)'
                               % (f.ty.args[0], line))
    eng.libuse.add('call:' + f.ty.args[0])
    yield from fn(eng, st, f, args, kwargs, line)


# ---------------------------------------------------------------------------------------------
# conversions

def to_str(eng, v):
    """str(v) as a String term (total)."""
    k = v.ty.kind
    if k == 'str':
        return v.t
    if k == 'int':
        return z3.If(v.t >= 0, z3.IntToStr(v.t), z3.Concat(z3.StringVal('-'), z3.IntToStr(-v.t)))
    if k == 'none':
        return z3.StringVal('None')
    if k == 'bool':
        return z3.If(v.t, z3.StringVal('True'), z3.StringVal('False'))
    if k == 'any':
        t = v.t
        return z3.If(PV.is_ps(t), PV.sv(t),
                     z3.If(PV.is_pi(t), to_str(eng, V(INT, PV.iv(t))), py_str_any(t)))
    if k == 'exc':
        return z3.String(eng.name('excmsg'))
    return py_str_any(box(v))


def mklist(eng, vs, st=None):
    if not vs:
        return V(List(BOT), None)
    if st is not None and any(v.ty.kind == 'any' for v in vs):
        vs = [eng.narrow(st, v) for v in vs]
    tys = set(v.ty for v in vs)
    if len(tys) == 1:
        ty = vs[0].ty
        if ty.kind == 'tup' and len(vs[0].t) == 2 and all(
                x.ty == STR for v in vs for x in v.t):
            t = None
            for v in vs:
                u = z3.Unit(SS.mkss(v.t[0].t, v.t[1].t))
                t = u if t is None else z3.Concat(t, u)
            return V(List(SS_T), t)
        if ty.kind in ('rec', 'tup', 'fn', 'mod', 'none', 'dict'):
            if ty.kind == 'none':
                t = None
                for v in vs:
                    u = z3.Unit(PV.pnone)
                    t = u if t is None else z3.Concat(t, u)
                return V(List(ANY), t)
            return V(Ty('pylist'), list(vs))
        t = None
        for v in vs:
            u = z3.Unit(v.t)
            t = u if t is None else z3.Concat(t, u)
        return V(List(ty), t)
    # mixed: box
    t = None
    for v in vs:
        u = z3.Unit(box(v))
        t = u if t is None else z3.Concat(t, u)
    return V(List(ANY), t)


def seq_term(eng, v, elemty=None):
    """Seq term of a list V (coercing an untyped empty list)."""
    if v.ty.args[0].kind == 'bot':
        return z3.Empty(z3.SeqSort(sort_of(elemty)))
    return v.t


def unify_lists(eng, a, b):
    """Two list V's -> (elemty, term a, term b) or None."""
    ea, eb = a.ty.args[0], b.ty.args[0]
    if ea.kind == 'bot' and eb.kind == 'bot':
        return BOT, None, None
    if ea.kind == 'bot':
        return eb, z3.Empty(z3.SeqSort(sort_of(eb))), b.t
    if eb.kind == 'bot':
        return ea, a.t, z3.Empty(z3.SeqSort(sort_of(ea)))
    if ea == eb:
        return ea, a.t, b.t
    if ea.kind in ('ref', 'opaque') and eb.kind in ('ref', 'opaque'):
        return (ea if is_opt(ea) else eb), a.t, b.t
    return None


# ---------------------------------------------------------------------------------------------
# operators

def binop(eng, st, op, a, b, line):
    ka, kb = a.ty.kind, b.ty.kind
    if ka == 'any' or kb == 'any':
        if st.spec and ka == 'any' and kb == 'any':
            raise core.EngineError('binary operator on two untyped values in a spec')
        for s1, ua in eng.split_any(st, a):
            for s2, ub in eng.split_any(s1, b):
                yield from binop(eng, s2, op, ua, ub, line)
        return
    num = ('int', 'bool', 'real')
    if ka in num and kb in num:
        if ka == 'real' or kb == 'real' or isinstance(op, ast.Div):
            x, y = eng.coerce(a, REAL).t, eng.coerce(b, REAL).t
            if isinstance(op, ast.Add):
                yield st, V(REAL, x + y)
            elif isinstance(op, ast.Sub):
                yield st, V(REAL, x - y)
            elif isinstance(op, ast.Mult):
                yield st, V(REAL, x * y)
            elif isinstance(op, ast.Div):
                for s1, nz in eng.fork(st, y != 0):
                    if nz:
                        yield s1, V(REAL, x / y)
                    else:
                        yield s1, R('ZeroDivisionError', line)
            else:
                raise core.EngineError('real operator at line %d' % line)
            return
        x, y = eng.coerce(a, INT).t, eng.coerce(b, INT).t
        if isinstance(op, ast.Add):
            yield st, V(INT, x + y)
        elif isinstance(op, ast.Sub):
            yield st, V(INT, x - y)
        elif isinstance(op, ast.Mult):
            yield st, V(INT, x * y)
        elif isinstance(op, ast.BitAnd):
            yv = z3.simplify(y)
            if z3.is_int_value(yv) and (yv.as_long() + 1) & yv.as_long() == 0:
                # x & (2^k - 1) == x mod 2^k for every Python int (infinite two's complement)
                yield st, V(INT, x % (yv.as_long() + 1))
            else:
                raise core.EngineError('general & at line %d' % line)
        elif isinstance(op, ast.Mod):
            for s1, nz in eng.fork(st, y != 0):
                if nz:
                    # Python's % takes the sign of the divisor; equal to SMT mod for y > 0
                    yield s1, V(INT, z3.If(y > 0, x % y, -((-x) % (-y))))
                else:
                    yield s1, R('ZeroDivisionError', line)
        elif isinstance(op, ast.FloorDiv):
            for s1, nz in eng.fork(st, y != 0):
                if nz:
                    yield s1, V(INT, z3.If(y > 0, x / y, (-x) / (-y)))
                else:
                    yield s1, R('ZeroDivisionError', line)
        else:
            raise core.EngineError('int operator at line %d' % line)
        return
    if isinstance(op, ast.Add):
        if ka == 'str' and kb == 'str':
            yield st, vstr(z3.Concat(a.t, b.t))
            return
        if ka in ('bytes', 'bytearray') and kb in ('bytes', 'bytearray'):
            yield st, V(a.ty, z3.Concat(a.t, b.t))
            return
        if ka == 'list' and kb == 'list':
            u = unify_lists(eng, a, b)
            if u is None:
                raise core.EngineError('list + list of different element types (line %d)' % line)
            ety, ta, tb = u
            if ety.kind == 'bot':
                yield st, a
            else:
                yield st, V(List(ety), z3.Concat(ta, tb))
            return
        if ka == 'pylist' and kb == 'pylist':
            yield st, V(a.ty, a.t + b.t)
            return
    if isinstance(op, ast.Mod) and ka == 'str':
        yield st, vstr(z3.String(eng.name('fmt')))
        return
    if isinstance(op, ast.Mult) and ka == 'str' and kb == 'int':
        raise core.EngineError('str * int at line %d' % line)
    yield st, R('TypeError', line)


def tup_to_ss(v):
    if v.ty.kind == 'tup' and len(v.t) == 2 and all(x.ty.kind == 'str' for x in v.t):
        return V(SS_T, SS.mkss(v.t[0].t, v.t[1].t))
    return v


def eq_term(eng, a, b):
    """Python == as a Bool term (total)."""
    if a.ty.kind == 'ss' or b.ty.kind == 'ss':
        a, b = tup_to_ss(a), tup_to_ss(b)
    ka, kb = a.ty.kind, b.ty.kind
    num = ('int', 'bool', 'real')
    if ka in num and kb in num:
        if ka == kb:
            return a.t == b.t
        if 'real' in (ka, kb):
            return eng.coerce(a, REAL).t == eng.coerce(b, REAL).t
        return eng.coerce(a, INT).t == eng.coerce(b, INT).t
    if ka == 'none' or kb == 'none':
        if ka == kb:
            return z3.BoolVal(True)
        o = b if ka == 'none' else a
        if o.ty.kind == 'any':
            return PV.is_pnone(o.t)
        if is_opt(o.ty):
            return o.t == 0
        return z3.BoolVal(False)
    if ka == 'any' and kb == 'rec':
        return a.t == eng.json_object(b)
    if kb == 'any' and ka == 'rec':
        return b.t == eng.json_object(a)
    if ka == 'any' or kb == 'any':
        if (kb if ka == 'any' else ka) in ('rec', 'tup', 'fn', 'mod', 'pylist', 'dict'):
            return z3.BoolVal(False)
        # Python compares numbers across int / bool / float (1 == True == 1.0)
        if (kb if ka == 'any' else ka) in ('int', 'bool', 'real', 'any'):
            def isnum(v):
                if v.ty.kind == 'any':
                    return z3.Or(PV.is_pi(v.t), PV.is_pb(v.t), PV.is_pr(v.t))
                return z3.BoolVal(True)

            def numval(v):
                if v.ty.kind == 'any':
                    return z3.If(PV.is_pi(v.t), z3.ToReal(PV.iv(v.t)),
                                 z3.If(PV.is_pb(v.t), z3.If(PV.bv(v.t), z3.RealVal(1),
                                                            z3.RealVal(0)), PV.rv(v.t)))
                return eng.coerce(v, REAL).t
            if ka == 'any' and kb == 'any':
                return z3.If(z3.And(isnum(a), isnum(b)), numval(a) == numval(b), a.t == b.t)
            o, n = (a, b) if ka == 'any' else (b, a)
            return z3.And(isnum(o), numval(o) == numval(n))
        if ka == 'list' and a.ty.args[0].kind == 'bot':
            a = V(List(STR), z3.Empty(SeqS))
        if kb == 'list' and b.ty.args[0].kind == 'bot':
            b = V(List(STR), z3.Empty(SeqS))
        if ka == 'list' and a.ty.args[0] != STR or kb == 'list' and b.ty.args[0] != STR:
            return z3.BoolVal(False)
        return box(a) == box(b)
    if ka in ('bytes', 'bytearray') and kb in ('bytes', 'bytearray'):
        return a.t == b.t
    if ka == 'list' and kb == 'list':
        u = unify_lists(eng, a, b)
        if u is None:
            for x, y in ((a, b), (b, a)):
                if is_opt(x.ty.args[0]) and y.ty.args[0].kind == 'any':
                    # compare element-wise through boxing (used for `packets == [None]`)
                    n = z3.simplify(z3.Length(y.t))
                    if z3.is_int_value(n):
                        n = n.as_long()
                        conj = [z3.Length(x.t) == n]
                        for j in range(n):
                            conj.append(box(V(x.ty.args[0], x.t[j])) == y.t[j])
                        return z3.And(*conj)
            if a.ty.args[0].kind == 'any' or b.ty.args[0].kind == 'any':
                raise core.EngineError('list equality with boxed elements')
            return z3.BoolVal(False)
        ety, ta, tb = u
        if ety.kind == 'bot':
            return z3.BoolVal(True)
        return ta == tb
    if ka != kb:
        if ka in ('ref', 'opaque') and kb in ('ref', 'opaque'):
            return a.t == b.t
        return z3.BoolVal(False)
    if ka == 'rec':
        if a.t.keys() != b.t.keys():
            return z3.BoolVal(False)
        return z3.And(*[eq_term(eng, a.t[k], b.t[k]) for k in a.t]) if a.t else z3.BoolVal(True)
    if ka == 'tup':
        if len(a.t) != len(b.t):
            return z3.BoolVal(False)
        return z3.And(*[eq_term(eng, x, y) for x, y in zip(a.t, b.t)]) if a.t else z3.BoolVal(True)
    if ka == 'dict':
        return z3.And(a.t[0] == b.t[0], a.t[1] == b.t[1])
    if ka in ('fn', 'mod', 'exc', 'pylist'):
        return z3.BoolVal(a.t is b.t or a.t == b.t)
    return a.t == b.t


def compare(eng, st, op, a, b, line):
    if isinstance(op, ast.Eq):
        yield st, vbool(eq_term(eng, a, b))
    elif isinstance(op, ast.NotEq):
        yield st, vbool(z3.Not(eq_term(eng, a, b)))
    elif isinstance(op, (ast.Is, ast.IsNot)):
        neg = isinstance(op, ast.IsNot)
        ka, kb = a.ty.kind, b.ty.kind
        if kb == 'none' or ka == 'none':
            t = eq_term(eng, a, b)
        elif kb == 'bool' and z3.is_true(b.t) or kb == 'bool' and z3.is_false(b.t):
            if ka == 'bool':
                t = a.t == b.t
            elif ka == 'any':
                t = z3.And(PV.is_pb(a.t), PV.bv(a.t) == b.t)
            else:
                t = z3.BoolVal(False)
        elif ka in ('ref', 'opaque') and kb in ('ref', 'opaque'):
            t = a.t == b.t
        else:
            raise core.EngineError('unsupported `is` at line %d' % line)
        yield st, vbool(z3.Not(t) if neg else t)
    elif isinstance(op, (ast.In, ast.NotIn)):
        neg = isinstance(op, ast.NotIn)
        for s1, t in contains(eng, st, a, b, line):
            if isinstance(t, core.Raise):
                yield s1, t
            else:
                yield s1, vbool(z3.Not(t) if neg else t)
    else:
        ka, kb = a.ty.kind, b.ty.kind
        if ka == 'any' or kb == 'any':
            for s1, ua in eng.split_any(st, a):
                for s2, ub in eng.split_any(s1, b):
                    yield from compare(eng, s2, op, ua, ub, line)
            return
        num = ('int', 'bool', 'real')
        if ka in num and kb in num:
            if 'real' in (ka, kb):
                x, y = eng.coerce(a, REAL).t, eng.coerce(b, REAL).t
            else:
                x, y = eng.coerce(a, INT).t, eng.coerce(b, INT).t
        elif ka == 'str' and kb == 'str':
            x, y = a.t, b.t
        elif st.spec and ka in ('ref', 'opaque', 'int') and kb in ('ref', 'opaque', 'int'):
            x, y = a.t, b.t          # object identities are ordered by allocation (spec only)
        else:
            yield st, R('TypeError', line)
            return
        if isinstance(op, ast.Lt):
            yield st, vbool(x < y)
        elif isinstance(op, ast.LtE):
            yield st, vbool(x <= y)
        elif isinstance(op, ast.Gt):
            yield st, vbool(x > y)
        else:
            yield st, vbool(x >= y)


def contains(eng, st, x, c, line):
    """x in c -> (state, Bool term | Raise)"""
    k = c.ty.kind
    if k == 'any':
        for s1, u in eng.split_any(st, c):
            yield from contains(eng, s1, x, u, line)
        return
    if k == 'str':
        if x.ty.kind == 'any':
            for s1, u in eng.split_any(st, x):
                yield from contains(eng, s1, u, c, line)
            return
        if x.ty.kind != 'str':
            yield st, R('TypeError', line)
        else:
            yield st, z3.Contains(c.t, x.t)
    elif k == 'list':
        ety = c.ty.args[0]
        if ety.kind == 'ss':
            x = tup_to_ss(x)
        if ety.kind == 'bot':
            yield st, z3.BoolVal(False)
        elif ety.kind == 'any':
            yield st, z3.Contains(c.t, z3.Unit(box(x)))
        elif x.ty == ety:
            yield st, z3.Contains(c.t, z3.Unit(x.t))
        elif x.ty.kind == 'any':
            yield st, z3.And(tag_test(x.t, ety),
                             z3.Contains(c.t, z3.Unit(unbox(x.t, ety).t)))
        else:
            yield st, z3.BoolVal(False)
    elif k == 'rec':
        if x.ty.kind == 'str':
            xs = z3.simplify(x.t)
            if z3.is_string_value(xs):
                yield st, z3.BoolVal(xs.as_string() in c.t)
            else:
                yield st, z3.Or(*[x.t == z3.StringVal(kk) for kk in c.t]) if c.t \
                    else z3.BoolVal(False)
        else:
            yield st, z3.BoolVal(False)
    elif k == 'dict':
        kt = c.ty.args[0]
        if x.ty == kt:
            yield st, z3.Select(c.t[0], x.t)
        elif x.ty.kind == 'any':
            yield st, z3.And(tag_test(x.t, kt), z3.Select(c.t[0], unbox(x.t, kt).t))
        elif x.ty.kind == 'none':
            yield st, z3.BoolVal(False)
        else:
            yield st, z3.BoolVal(False)
    elif k == 'tup' or k == 'pylist':
        items = c.t
        yield st, z3.Or(*[eq_term(eng, x, i) for i in items]) if items else z3.BoolVal(False)
    elif k == 'json':
        if x.ty.kind == 'str':
            yield st, j_haskey(c.t, x.t)
        else:
            yield st, z3.BoolVal(False)
    elif k in ('bytes', 'bytearray'):
        if x.ty.kind in ('bytes', 'bytearray'):
            yield st, z3.Contains(c.t, x.t)
        else:
            yield st, R('TypeError', line)       # str in bytes
    else:
        yield st, R('TypeError', line)


j_haskey = z3.Function('j_haskey', JV, S, B)
j_get = z3.Function('j_get', JV, S, PV)


def typed_dict_elem(eng, st, c, key, val_t):
    """Typed view of a dict value (manual instantiation of the dict's typing precondition)."""
    vt = c.ty.args[1]
    typed = c.ty.args[2] if len(c.ty.args) > 2 else ()
    if vt.kind != 'any' or not typed:
        v = V(vt, val_t)
        eng.wf_ref(st, v)
        return v
    ks = z3.simplify(key.t) if key.ty.kind == 'str' else None
    if ks is not None and z3.is_string_value(ks):
        kk = ks.as_string()
        for pat, ty in typed:
            if pat == kk or (pat.endswith('*') and kk.startswith(pat[:-1])):
                if not st.spec:
                    eng.fact(st, tag_test(val_t, ty))
                return unbox(val_t, ty)
    return V(ANY, val_t)


def index(eng, st, o, i, line):
    k = o.ty.kind
    if k == 'any':
        for s1, u in eng.split_any(st, o):
            if u.ty.kind == 'none':
                yield s1, R('TypeError', line)
            else:
                yield from index(eng, s1, u, i, line)
        return
    if k == 'rec':
        ks = z3.simplify(i.t) if i.ty.kind == 'str' else None
        if ks is None or not z3.is_string_value(ks):
            if st.spec:
                yield st, R('KeyError', line)
                return
            raise core.EngineError('record indexed by a non-constant key at line %d' % line)
        kk = ks.as_string()
        if kk in o.t:
            yield st, o.t[kk]
        else:
            yield st, R('KeyError', line)
        return
    if k == 'tup' or k == 'pylist':
        iv = z3.simplify(i.t)
        if not z3.is_int_value(iv):
            raise core.EngineError('tuple indexed by non-constant at line %d' % line)
        n = iv.as_long()
        if -len(o.t) <= n < len(o.t):
            yield st, o.t[n]
        else:
            yield st, R('IndexError', line)
        return
    if k == 'dict':
        kt = o.ty.args[0]
        if i.ty != kt:
            if i.ty.kind == 'any':
                i2 = unbox(i.t, kt)
                for s1, ok in eng.fork(st, tag_test(i.t, kt)):
                    if ok:
                        yield from index(eng, s1, o, i2, line)
                    else:
                        yield s1, R('KeyError', line)
                return
            yield st, R('KeyError', line)
            return
        for s1, present in eng.fork(st, z3.Select(o.t[0], i.t)):
            if present:
                yield s1, typed_dict_elem(eng, s1, o, i, z3.Select(o.t[1], i.t))
            else:
                yield s1, R('KeyError', line)
        return
    if k in ('list', 'str', 'bytes', 'bytearray'):
        if i.ty.kind not in ('int', 'bool'):
            yield st, R('TypeError', line)
            return
        if k == 'list' and o.ty.args[0].kind == 'bot':
            yield st, R('IndexError', line)
            return
        n = z3.Length(o.t)
        it = eng.coerce(i, INT).t
        for s1, ok in eng.fork(st, z3.And(it >= -n, it < n)):
            if not ok:
                yield s1, R('IndexError', line)
                continue
            itv = z3.simplify(it)
            if z3.is_int_value(itv):
                idx = itv if itv.as_long() >= 0 else z3.simplify(itv + n)
            elif eng.assume(s1, it < 0) is None:
                idx = it
            else:
                idx = z3.If(it >= 0, it, it + n)
            if k == 'list':
                v = V(o.ty.args[0], o.t[idx])
                eng.wf_ref(s1, v)
                yield s1, v
            elif k == 'str':
                yield s1, vstr(z3.SubString(o.t, idx, 1))
            else:
                yield s1, V(INT, z3.Int(eng.name('byte')))
        return
    if k == 'ss':
        iv = z3.simplify(i.t)
        if z3.is_int_value(iv) and iv.as_long() in (0, 1, -1, -2):
            yield st, vstr((SS.ss0, SS.ss1)[iv.as_long() % 2](o.t))
        else:
            yield st, R('IndexError', line)
        return
    if k == 'json':
        if i.ty.kind == 'str':
            for s1, present in eng.fork(st, j_haskey(o.t, i.t)):
                if present:
                    yield s1, V(ANY, j_get(o.t, i.t))
                else:
                    yield s1, R('KeyError', line)
            return
        yield st, R('KeyError', line)
        return
    yield st, R('TypeError', line)


def slice(eng, st, o, lo, hi, line):
    k = o.ty.kind
    if k == 'any':
        for s1, u in eng.split_any(st, o):
            yield from slice(eng, s1, u, lo, hi, line)
        return
    if k not in ('str', 'bytes', 'bytearray', 'list'):
        yield st, R('TypeError', line)
        return
    if k == 'list' and o.ty.args[0].kind == 'bot':
        yield st, o
        return
    n = z3.Length(o.t)

    def norm(v, dflt):
        if v is None:
            return dflt
        t = eng.coerce(v, INT).t
        t = z3.If(t < 0, z3.If(t + n < 0, 0, t + n), z3.If(t > n, n, t))
        return t
    def nonneg(t):
        """syntactically non-negative: a length, a non-negative numeral, or a sum of such"""
        if z3.is_int_value(t):
            return t.as_long() >= 0
        if z3.is_app(t):
            k = t.decl().kind()
            if k == z3.Z3_OP_SEQ_LENGTH:
                return True
            if k == z3.Z3_OP_ADD:
                return all(nonneg(c) for c in t.children())
        return False

    def bound(v):
        if v is None:
            return None
        t = z3.simplify(eng.coerce(v, INT).t)
        return t if nonneg(t) else False
    ca, cb = bound(lo), bound(hi)
    # non-negative bounds: seq.extract clamps at the end of the sequence by itself (offset beyond
    # the end or a non-positive length give the empty sequence, as Python's slice does)
    if ca is not False and cb is not False:
        a0 = z3.IntVal(0) if ca is None else ca
        ln0 = n if cb is None else z3.simplify(cb - a0)
        yield st, V(o.ty, z3.simplify(z3.SubSeq(o.t, a0, ln0)))
        return
    a = norm(lo, z3.IntVal(0))
    b = norm(hi, n)
    ln = z3.If(b > a, b - a, 0)
    yield st, V(o.ty, z3.simplify(z3.SubSeq(o.t, a, ln)))


def setitem(eng, st, o, i, v, line):
    k = o.ty.kind
    if k == 'rec':
        ks = z3.simplify(i.t)
        if not z3.is_string_value(ks):
            raise core.EngineError('record store with non-constant key at line %d' % line)
        d = dict(o.t)
        d[ks.as_string()] = v
        yield st, V(REC, d)
    elif k == 'dict':
        kt, vt = o.ty.args[0], o.ty.args[1]
        i = eng.coerce(i, kt)
        v2 = eng.coerce(v, vt)
        dom, mp = o.t
        ndom = z3.Store(dom, i.t, True)
        eng.fact(st, card(ndom) == card(dom) + z3.If(z3.Select(dom, i.t), 0, 1))
        yield st, V(o.ty, (ndom, z3.Store(mp, i.t, box(v2) if vt.kind == 'any' else v2.t)))
    else:
        yield st, R('TypeError', line)


def delitem(eng, st, o, i, line):
    if o.ty.kind != 'dict':
        yield st, R('TypeError', line)
        return
    kt = o.ty.args[0]
    if i.ty != kt:
        i = eng.coerce(i, kt)
    dom, mp = o.t
    for s1, present in eng.fork(st, z3.Select(dom, i.t)):
        if not present:
            yield s1, R('KeyError', line)
            continue
        ndom = z3.Store(dom, i.t, False)
        eng.fact(s1, card(ndom) == card(dom) - 1)
        # the slot of a deleted key is reset, so that dicts with equal content are equal terms
        yield s1, V(o.ty, (ndom, z3.Store(mp, i.t, eng.default_term(mp.sort().range()))))


def unpack(eng, st, v, n, line):
    k = v.ty.kind
    if k in ('tup', 'pylist'):
        if len(v.t) == n:
            yield st, list(v.t)
        else:
            yield st, R('ValueError', line)
    elif k == 'list':
        if v.ty.args[0].kind == 'bot':
            yield st, R('ValueError', line)
            return
        for s1, ok in eng.fork(st, z3.Length(v.t) == n):
            if ok:
                yield s1, [V(v.ty.args[0], z3.simplify(v.t[j])) for j in range(n)]
            else:
                yield s1, R('ValueError', line)
    else:
        yield st, R('TypeError', line)


def iterate(eng, st, s, xs):
    k = xs.ty.kind
    if k in ('tup', 'pylist'):
        yield from eng.for_concrete(s, st, xs.t)
    elif k == 'list':
        if xs.ty.args[0].kind == 'bot':
            yield st, None
            return
        # constant lists are unrolled exactly
        items = seq_constant_items(xs)
        if items is not None and eng.loop_spec(s)[0] is None:
            yield from eng.for_concrete(s, st, [V(xs.ty.args[0], t) for t in items])
            return
        yield from eng.for_seq(s, st, xs.t, xs.ty.args[0])
    elif k == 'dictitems':
        # for key, value in d.items(): the items in some order (keys distinct members of d,
        # value = d[key]); the element handed to the loop target is the pair
        d = xs.t
        kt, vt = d.ty.args[0], d.ty.args[1]
        n = card(d.t[0])
        keys = z3.Const(eng.name('keys'), z3.SeqSort(sort_of(kt)))
        eng.fact(st, z3.Length(keys) == n)

        def axiom(i):
            return z3.Select(d.t[0], keys[i])

        def elem(i):
            return V(TUP, (V(kt, keys[i]), V(vt, z3.Select(d.t[1], keys[i]))))
        yield from eng.for_seq(s, st, keys, kt, axiom, elem=elem)
    elif k == 'dictvalues':
        d = xs.t
        vt = d.ty.args[1]
        n = card(d.t[0])
        keys = z3.Const(eng.name('keys'), z3.SeqSort(sort_of(d.ty.args[0])))
        vals = z3.Const(eng.name('vals'), z3.SeqSort(sort_of(vt)))
        eng.fact(st, z3.Length(keys) == n)
        eng.fact(st, z3.Length(vals) == n)

        def axiom(i):
            return z3.And(z3.Select(d.t[0], keys[i]), vals[i] == z3.Select(d.t[1], keys[i]))
        st.notes = st.notes + (('dictkeys', keys),)
        yield from eng.for_seq(s, st, vals, vt, axiom)
    else:
        raise core.EngineError('iteration over %r at line %d' % (xs.ty, s.lineno))


def seq_constant_items(xs):
    """If the Seq term is a concatenation of units of values, return the element terms."""
    t = z3.simplify(xs.t)
    out = []

    def walk(t):
        if z3.is_app(t) and t.decl().kind() == z3.Z3_OP_SEQ_CONCAT:
            return all(walk(c) for c in t.children())
        if z3.is_app(t) and t.decl().kind() == z3.Z3_OP_SEQ_UNIT:
            ch = t.children()[0]
            out.append(ch)
            return True
        if z3.is_app(t) and t.decl().kind() == z3.Z3_OP_SEQ_EMPTY:
            return True
        return False
    if walk(t):
        if all(z3.is_string_value(o) or z3.is_int_value(o) for o in out):
            return out
    return None


def listcomp(eng, st, e):
    if len(e.generators) != 1 or e.generators[0].is_async:
        raise core.EngineError('unsupported comprehension at line %d' % e.lineno)
    g = e.generators[0]
    spec, ordn = eng.loop_spec(e)
    for s1, xs in eng.ev(g.iter, st):
        if isinstance(xs, core.Raise):
            yield s1, xs
            continue
        if spec is not None:
            yield from listcomp_loop(eng, s1, e, xs, spec, ordn)
            continue
        if xs.ty.kind != 'list' or g.ifs:
            items = None
            if xs.ty.kind in ('tup', 'pylist'):
                items = list(xs.t)
            elif xs.ty.kind == 'list':
                ci = seq_constant_items(xs)
                items = None if ci is None else [V(xs.ty.args[0], t) for t in ci]
            if items is None and xs.ty.kind == 'list' and len(g.ifs) == 1:
                yield from listcomp_filter(eng, s1, e, xs)
                continue
            if items is None:
                raise core.EngineError('comprehension needs a loop spec at line %d' % e.lineno)
            yield from listcomp_concrete(eng, s1, e, items)
            continue
        if xs.ty.args[0].kind == 'bot':
            yield s1, xs
            continue
        # pure map: r fresh, len r == len xs, forall k. r[k] == f(xs[k])
        kname = eng.name('k!comp')
        k = z3.Int(kname)
        if not isinstance(g.target, ast.Name):
            raise core.EngineError('comprehension target')
        env = dict(s1.env)
        env['__parent__'] = s1.env
        env[g.target.id] = V(xs.ty.args[0], xs.t[k])
        fv = eng.spec(e.elt, s1, env, modname=eng.modname(s1))
        if fv.ty.kind in ('rec', 'tup', 'fn', 'mod', 'none'):
            raise core.EngineError('comprehension element type at line %d' % e.lineno)
        # the result is a function of the input sequence and of the element expression's text, so
        # that the same comprehension in the code and in a spec function denotes the same value
        import zlib
        free = sorted(n.id for n in ast.walk(e.elt) if isinstance(n, ast.Name) and
                      n.id != g.target.id and s1.env.get(n.id) is not None and
                      s1.env[n.id].ty.kind in ('int', 'str', 'bool'))
        sig = ast.dump(e.elt) + '|' + g.target.id
        fargs = [xs.t] + [s1.env[n].t for n in free]
        f = z3.Function('comp_%d' % (zlib.crc32(sig.encode()) % 1000000),
                        *([a.sort() for a in fargs] + [z3.SeqSort(sort_of(fv.ty))]))
        r = f(*fargs)
        s2 = s1.copy()
        eng.fact(s2, z3.Length(r) == z3.Length(xs.t))
        ft = box(fv) if fv.ty.kind == 'any' else fv.t
        eng.fact(s2, z3.ForAll([k], z3.Implies(z3.And(k >= 0, k < z3.Length(xs.t)),
                                               r[k] == ft)))
        yield s2, V(List(fv.ty), r)


def listcomp_filter(eng, st, e, xs):
    """[x for x in xs if P(x)] - filter: result r is characterised by membership only
    (order-preserving subsequence; the facts used are: membership and emptiness)."""
    g = e.generators[0]
    if not (isinstance(e.elt, ast.Name) and isinstance(g.target, ast.Name) and
            e.elt.id == g.target.id):
        raise core.EngineError('filter comprehension with a mapped element at line %d' % e.lineno)
    ety = xs.ty.args[0]
    x = z3.Const(eng.name('x!filt'), sort_of(ety))
    env = dict(st.env)
    env['__parent__'] = st.env
    env[g.target.id] = V(ety, x)
    p = truth(eng.spec(g.ifs[0], st, env, modname=eng.modname(st)))
    r = z3.Const(eng.name('filt'), z3.SeqSort(sort_of(ety)))
    s2 = st.copy()
    eng.fact(s2, z3.ForAll([x], z3.Contains(r, z3.Unit(x)) ==
                           z3.And(z3.Contains(xs.t, z3.Unit(x)), p)))
    eng.fact(s2, z3.Length(r) <= z3.Length(xs.t))
    yield s2, V(xs.ty, r)


def listcomp_concrete(eng, st, e, items):
    g = e.generators[0]

    def go(s1, rest, acc):
        if not rest:
            yield s1, mklist(eng, acc)
            return
        s2 = s1.copy()
        saved = s2.env
        env = dict(s2.env)
        env[g.target.id] = rest[0]
        s2.env = env
        conds = g.ifs
        for s3, cv in eng.ev_list(conds, s2):
            if isinstance(cv, core.Raise):
                s3.env = saved
                yield s3, cv
                continue
            allc = z3.And(*[truth(c) for c in cv]) if cv else z3.BoolVal(True)
            for s4, keep in eng.fork(s3, allc):
                if not keep:
                    s4.env = saved
                    yield from go(s4, rest[1:], acc)
                    continue
                for s5, v in eng.ev(e.elt, s4):
                    s5.env = saved
                    if isinstance(v, core.Raise):
                        yield s5, v
                    else:
                        yield from go(s5, rest[1:], acc + [v])
    yield from go(st, items, [])


def listcomp_loop(eng, st, e, xs, spec, ordn):
    """A comprehension with a sidecar loop spec is executed as the loop
    `comp = []; for x in xs: comp.append(elt)` (invariants speak about `comp`)."""
    g = e.generators[0]
    if xs.ty.kind != 'list':
        raise core.EngineError('comprehension loop spec over %r' % (xs.ty,))
    ety = xs.ty.args[0]
    rty = spec.elem_ty
    i = z3.Int(eng.name('i%d' % ordn))
    comp0 = V(List(rty), z3.Empty(z3.SeqSort(sort_of(rty))))
    s0 = st.copy()
    env0 = dict(s0.env)
    env0['xs'] = xs
    env0['comp'] = comp0
    env0[spec.index or '_i'] = vint(0)
    for cl in spec.invariants:
        eng.oblige(s0, 'inv-init', 'loop%d:%s' % (ordn, cl.label),
                   eng.spec_bool(cl.src, s0, env0), props=cl.props, line=e.lineno)
    head = st.copy()
    head.loopw = set()
    eng.havoc_alloc(head)
    env = dict(head.env)
    for loc in spec.modifies:
        if loc.startswith('ghost.') or '.' in loc:
            eng.havoc(head, [loc], env, 'loop')
    head.loopw = set()
    comp = V(List(rty), z3.Const(eng.name('comp'), z3.SeqSort(sort_of(rty))))
    env['comp'] = comp
    env['xs'] = xs
    env[spec.index or '_i'] = vint(i)
    head.env = env
    head.pc.append(i >= 0)
    head.pc.append(i <= z3.Length(xs.t))
    # with a filter the result is a subsequence: at most one element per element visited
    head.pc.append(z3.Length(comp.t) <= i if g.ifs else z3.Length(comp.t) == i)
    for cl in spec.invariants:
        head = eng.assume(head, eng.spec_bool(cl.src, head, env), copy=False)
        if head is None:
            return
    for s2, side in eng.fork(head, i < z3.Length(xs.t)):
        if not side:
            out = s2.env['comp']
            e2 = dict(st.env)
            s2.env = e2
            yield eng._loop_exit(s2, st), out
            continue
        s2.trace = s2.trace + ('f%d' % e.lineno,)
        env2 = dict(s2.env)
        env2[g.target.id] = V(ety, xs.t[i])
        s2.env = env2

        def keep(s3, env3):
            env3[spec.index or '_i'] = vint(i + 1)
            for cl in spec.invariants:
                eng.oblige(s3, 'inv-keep', 'loop%d:%s' % (ordn, cl.label),
                           eng.spec_bool(cl.src, s3, env3), props=cl.props, line=e.lineno)

        def filtered(s3, conds):
            """(state, passes?) after evaluating the `if` clauses left to right"""
            if not conds:
                yield s3, True
                return
            for s4, cv in eng.ev(conds[0], s3):
                if isinstance(cv, core.Raise):
                    yield s4, cv
                    continue
                for s5, ok in eng.fork(s4, truth(cv)):
                    if ok:
                        yield from filtered(s5, conds[1:])
                    else:
                        yield s5, False
        for s2b, passes in filtered(s2, list(g.ifs)):
            if isinstance(passes, core.Raise):
                s2b.env = dict(st.env)
                yield eng._loop_exit(s2b, st), passes
                continue
            if not passes:
                keep(s2b, dict(s2b.env))        # element skipped: comp unchanged
                continue
            for s3, v in eng.ev(e.elt, s2b):
                if isinstance(v, core.Raise):
                    s3.env = dict(st.env)
                    yield eng._loop_exit(s3, st), v
                    continue
                env3 = dict(s3.env)
                env3['comp'] = V(List(rty), z3.Concat(comp.t, z3.Unit(eng.coerce(v, rty).t)))
                keep(s3, env3)


# ---------------------------------------------------------------------------------------------
# spec-only special forms

def sp_old(eng, st, e):
    if st.pre is None:
        raise core.EngineError('old() outside a two-state context')
    s2 = st.copy()
    s2.heap = dict(st.pre.heap)
    s2.ghost = dict(st.pre.ghost)
    for s3, v in eng.ev(e.args[0], s2):
        s4 = st.copy()
        s4.pc = s3.pc
        yield s4, v


def _quant(eng, st, e, q):
    lam = e.args[0]
    if not isinstance(lam, ast.Lambda):
        raise core.EngineError('forall/exists needs a lambda')
    names = [a.arg for a in lam.args.args]
    env = dict(st.env)
    env['__parent__'] = st.env
    consts = []
    for n in names:
        c = z3.Int(eng.name('q_' + n))
        consts.append(c)
        env[n] = V(INT, c)
    rng = []
    if len(e.args) >= 3:
        lo = eng.spec(e.args[1], st, dict(st.env), modname=eng.modname(st))
        hi = eng.spec(e.args[2], st, dict(st.env), modname=eng.modname(st))
        rng = [consts[0] >= lo.t, consts[0] < hi.t]
    s2 = eng.assume(st, z3.And(*rng)) if rng else st.copy()
    if s2 is None:
        yield st, vbool(q == 'forall')       # empty range
        return
    saved = eng.undef
    eng.undef = []
    eng.bound_depth += 1
    try:
        body = truth(eng.spec(lam.body, s2, env, modname=eng.modname(st)))
        und = eng.undef
    finally:
        eng.undef = saved
        eng.bound_depth -= 1
    if und:
        # definedness of the body is part of the quantified statement
        body = z3.And(z3.Not(z3.Or(*und)), body)
    if q == 'forall':
        t = z3.ForAll(consts, z3.Implies(z3.And(*rng), body) if rng else body)
        eng.quants[t.get_id()] = (t, consts, rng, body)
    else:
        t = z3.Exists(consts, z3.And(*(rng + [body])))
        eng.quants[t.get_id()] = (t, consts, rng, body)
    yield st, vbool(t)


def sp_unshared(eng, st, e):
    """unshared(x): x is not (statically, on this path) a module- or class-level object - it is
    safe for the caller to mutate it in place. Decided by the engine's origin tracking; a value
    obtained through a contract is fresh exactly when that contract says so."""
    v = eng.spec(e.args[0], st, dict(st.env), modname=eng.modname(st))
    yield st, vbool(getattr(v, 'origin', None) is None)


def sp_is_record(eng, st, e):
    """is_record(x): x is (statically, in this verification case) a dict literal with constant
    string keys - used to tell the cases of a union-typed parameter apart in a clause."""
    v = eng.spec(e.args[0], st, dict(st.env), modname=eng.modname(st))
    yield st, vbool(v.ty.kind == 'rec')


def sp_exists_split(eng, st, e):
    """exists_split(lambda p, e: body, s): some split s == p + e satisfies body."""
    lam = e.args[0]
    names = [a.arg for a in lam.args.args]
    if len(names) != 2:
        raise core.EngineError('exists_split needs a two-argument lambda')
    sv = eng.spec(e.args[1], st, dict(st.env), modname=eng.modname(st))
    if sv.ty.kind != 'str':
        raise core.EngineError('exists_split over a non-str value')
    env = dict(st.env)
    env['__parent__'] = st.env
    consts = [z3.String(eng.name('q_' + n)) for n in names]
    for n, c in zip(names, consts):
        env[n] = V(STR, c)
    rng = [z3.Concat(consts[0], consts[1]) == sv.t]
    saved = eng.undef
    eng.undef = []
    eng.bound_depth += 1
    try:
        body = truth(eng.spec(lam.body, st.copy(), env, modname=eng.modname(st)))
        und = eng.undef
    finally:
        eng.undef = saved
        eng.bound_depth -= 1
    if und:
        body = z3.And(z3.Not(z3.Or(*und)), body)
    t = z3.Exists(consts, z3.And(*(rng + [body])))
    eng.quants[t.get_id()] = (t, consts, rng, body)
    yield st, vbool(t)


def sp_forall(eng, st, e):
    yield from _quant(eng, st, e, 'forall')


def sp_exists(eng, st, e):
    yield from _quant(eng, st, e, 'exists')


def sp_implies(eng, st, e):
    a = truth(eng.spec(e.args[0], st, dict(st.env), modname=eng.modname(st)))
    s2 = eng.assume(st, a)
    if s2 is None:
        yield st, vbool(True)
        return
    saved = eng.undef
    eng.undef = []
    try:
        b = truth(eng.spec(e.args[1], s2, dict(st.env), modname=eng.modname(st)))
        ub = eng.undef
    finally:
        eng.undef = saved
    for u in ub:
        eng.undef.append(z3.And(a, u))
    yield st, vbool(z3.Implies(a, b))


def sp_typeis(eng, st, e):
    """typeis(x, 'str') - tag test usable in specs."""
    v = eng.spec(e.args[0], st, dict(st.env), modname=eng.modname(st))
    name = e.args[1].value
    yield st, vbool(isinstance_term(eng, v, name))


def sp_alloc_now(eng, st, e):
    yield st, st.ghost['$alloc']


SPECIAL = {'alloc_now': sp_alloc_now, 'old': sp_old, 'forall': sp_forall, 'exists': sp_exists, 'exists_split': sp_exists_split, 'unshared': sp_unshared, 'is_record': sp_is_record, 'implies': sp_implies,
           'typeis': sp_typeis}


# ---------------------------------------------------------------------------------------------
# builtins

def isinstance_term(eng, v, tname):
    k = v.ty.kind
    if k == 'any':
        t = v.t
        return {
            'str': PV.is_ps(t), 'bytes': PV.is_py(t), 'bytearray': PV.is_pya(t),
            'int': z3.Or(PV.is_pi(t), PV.is_pb(t)), 'bool': PV.is_pb(t), 'float': PV.is_pr(t),
            'dict': z3.And(PV.is_pj(t), j_isdict(PV.jv(t))),
            'list': z3.Or(PV.is_pls(t), z3.And(PV.is_pj(t), z3.Not(j_isdict(PV.jv(t))))),
            'tuple': z3.BoolVal(False), 'object': z3.BoolVal(True), 'set': z3.BoolVal(False),
            'NoneType': PV.is_pnone(t), 'liststr': PV.is_pls(t),
        }[tname]
    table = {
        'str': ('str',), 'bytes': ('bytes',), 'bytearray': ('bytearray',),
        'int': ('int', 'bool'), 'bool': ('bool',), 'float': ('real',),
        'tuple': ('tup',), 'set': (), 'NoneType': ('none',),
    }
    if tname == 'liststr':
        return z3.BoolVal(k == 'list' and v.ty.args[0].kind in ('str', 'bot'))
    if tname == 'object':
        return z3.BoolVal(True)
    if tname == 'dict':
        if k in ('rec', 'dict'):
            return z3.BoolVal(True)
        if k == 'json':
            return j_isdict(v.t)
        return z3.BoolVal(False)
    if tname == 'list':
        if k in ('list', 'pylist'):
            return z3.BoolVal(True)
        if k == 'json':
            return z3.Not(j_isdict(v.t))
        return z3.BoolVal(False)
    return z3.BoolVal(k in table[tname])


def type_names(eng, tv):
    if tv.ty.kind == 'tup':
        out = []
        for x in tv.t:
            out += type_names(eng, x)
        return out
    if tv.ty.kind == 'fn' and tv.t[0] == 'lib' and tv.t[1] in BUILTIN_TYPES:
        return [tv.t[1]]
    if tv.ty.kind == 'fn' and tv.t[0] in ('excclass', 'class'):
        return ['exc:' + tv.t[-1]]
    raise core.EngineError('isinstance with unsupported type %r' % (tv,))


@lib('isinstance')
def _isinstance(eng, st, args, kwargs, line):
    v, tv = args
    names = type_names(eng, tv)
    terms = []
    for n in names:
        if n.startswith('exc:'):
            terms.append(z3.BoolVal(v.ty.kind == 'exc' and core.exc_is_sub(v.t.cls, n[4:])))
        else:
            terms.append(isinstance_term(eng, v, n))
    yield st, vbool(z3.simplify(z3.Or(*terms)))


@lib('len')
def _len(eng, st, args, kwargs, line):
    v, = args
    k = v.ty.kind
    if k == 'any':
        for s1, u in eng.split_any(st, v):
            yield from _len(eng, s1, [u], kwargs, line)
        return
    if k in ('str', 'bytes', 'bytearray'):
        yield st, vint(z3.Length(v.t))
    elif k == 'list':
        yield st, vint(0 if v.ty.args[0].kind == 'bot' else z3.Length(v.t))
    elif k in ('rec', 'tup', 'pylist'):
        yield st, vint(len(v.t))
    elif k == 'dict':
        eng.fact(st, card(v.t[0]) >= 0)
        yield st, vint(card(v.t[0]))
    elif k == 'json':
        eng.fact(st, j_len(v.t) >= 0)
        yield st, vint(j_len(v.t))
    else:
        yield st, R('TypeError', line)


@lib('int')
def _int(eng, st, args, kwargs, line):
    v, = args
    k = v.ty.kind
    if k == 'any':
        for s1, u in eng.split_any(st, v):
            yield from _int(eng, s1, [u], kwargs, line)
        return
    if k == 'int':
        yield st, v
    elif k == 'bool':
        yield st, eng.coerce(v, INT)
    elif k == 'real':
        yield st, vint(z3.If(v.t >= 0, z3.ToInt(v.t), -z3.ToInt(-v.t)))
    elif k == 'str':
        for ax in int_axioms(v.t):
            eng.fact(st, ax)
        for s1, ok in eng.fork(st, py_int_ok(v.t)):
            if ok:
                yield s1, vint(py_int(v.t))
            else:
                yield s1, R('ValueError', line)
    else:
        yield st, R('TypeError', line)


@lib('float')
def _float(eng, st, args, kwargs, line):
    v, = args
    if v.ty.kind in ('int', 'bool', 'real'):
        yield st, eng.coerce(v, REAL)
    else:
        yield st, R('TypeError', line)


@lib('str')
def _str(eng, st, args, kwargs, line):
    if not args:
        yield st, vstr('')
        return
    yield st, vstr(to_str(eng, args[0]))


@lib('bool')
def _bool(eng, st, args, kwargs, line):
    yield st, vbool(truth(args[0]))


@lib('bytes')
def _bytes(eng, st, args, kwargs, line):
    v, = args
    if v.ty.kind in ('bytes', 'bytearray'):
        yield st, V(BYTES, v.t)
    elif v.ty.kind == 'int':
        r = z3.Function('zero_bytes', I, S)(v.t)
        eng.fact(st, z3.Length(r) == z3.If(v.t >= 0, v.t, 0))
        yield st, V(BYTES, r)
    elif v.ty.kind == 'any':
        for s1, u in eng.split_any(st, v):
            yield from _bytes(eng, s1, [u], kwargs, line)
    else:
        yield st, R('TypeError', line)


@lib('bytearray')
def _bytearray(eng, st, args, kwargs, line):
    raise core.EngineError('bytearray()')


@lib('callable')
def _callable(eng, st, args, kwargs, line):
    v, = args
    k = v.ty.kind
    if k == 'fn':
        yield st, vbool(True)
    elif k == 'opaque':
        yield st, vbool(o_callable(v.t))
    elif k == 'any':
        yield st, vbool(z3.And(PV.is_po(v.t), o_callable(PV.ov(v.t))))
    else:
        yield st, vbool(False)


@lib('getattr')
def _getattr(eng, st, args, kwargs, line):
    o, name = args[0], args[1]
    ns = z3.simplify(name.t)
    if z3.is_string_value(ns) and o.ty.kind == 'opaque' and o.ty.args[0] == 'WS':
        yield st, _getattr_opaque(eng, st, o, ns.as_string(), line)
        return
    if z3.is_string_value(ns):
        yield from eng.getattr(st, o, ns.as_string(), line)
        return
    if o.ty.kind != 'ref':
        raise core.EngineError('getattr with symbolic name on %r' % (o.ty,))
    # fork over the methods of the receiver's class (real source) that can match
    cands = []
    sch = eng.reg.schemas.get(o.ty.args[0])
    while sch is not None:
        if sch.module:
            ci = eng.src.module(sch.module).classes.get(sch.name)
            if ci is not None:
                cands += [m for m in ci.methods if m not in cands]
        sch = eng.reg.schemas.get(sch.base) if sch.base else None
    rest = st
    for m in cands:
        # The candidate name is a constant, so str.lower of each of its suffixes is known exactly
        # (computed here): these ground instances of the library function decide conditions such
        # as `('_' + x == m) and x.lower() in (...)`.  They are used for the feasibility test only;
        # the state explored further is the one without them.
        probe = rest.copy()
        for j in range(len(m)):
            probe.pc.append(py_lower(z3.StringVal(m[j:])) == z3.StringVal(m[j:].lower()))
        if eng.assume(probe, name.t == z3.StringVal(m), precise=True) is None:
            s1 = None
        else:
            s1 = eng.assume(rest, name.t == z3.StringVal(m), precise=True)
        if s1 is not None:
            yield from eng.getattr(s1, o, m, line)
        rest = eng.assume(rest, name.t != z3.StringVal(m))
        if rest is None:
            return
    if len(args) > 2:
        yield rest, args[2]
    else:
        yield rest, R('AttributeError', line)


@lib('hasattr')
def _hasattr(eng, st, args, kwargs, line):
    o, name = args
    if o.ty.kind == 'opaque':
        # unmodelled driver object: the attribute may or may not exist
        b = z3.Bool(eng.name('hasattr'))
        yield st, vbool(b)
        return
    raise core.EngineError('hasattr on %r' % (o.ty,))


def _getattr_opaque(eng, st, o, attr, line):
    return V(Opaque('DriverAttr'), z3.Int(eng.name('attr_' + attr)))


def _noop_m(eng, st, recv, args, kwargs, line):
    yield st, VNONE


LIBM[('opaque:DriverAttr', 'settimeout')] = _noop_m


@lib('max')
def _max(eng, st, args, kwargs, line):
    a, b = args
    if a.ty.kind in ('int', 'bool') and b.ty.kind in ('int', 'bool'):
        x, y = eng.coerce(a, INT).t, eng.coerce(b, INT).t
        yield st, vint(z3.If(x >= y, x, y))
    else:
        x, y = eng.coerce(a, REAL).t, eng.coerce(b, REAL).t
        yield st, vreal(z3.If(x >= y, x, y))


@lib('min')
def _min(eng, st, args, kwargs, line):
    a, b = args
    if a.ty.kind in ('int', 'bool') and b.ty.kind in ('int', 'bool'):
        x, y = eng.coerce(a, INT).t, eng.coerce(b, INT).t
        yield st, vint(z3.If(x <= y, x, y))
    else:
        x, y = eng.coerce(a, REAL).t, eng.coerce(b, REAL).t
        yield st, vreal(z3.If(x <= y, x, y))


for _t in ('dict', 'list', 'tuple', 'object', 'set'):
    def _mk(name):
        def fn(eng, st, args, kwargs, line):
            if name == 'set' and not args and not kwargs:
                # a new empty set: an opaque object (only ever stored; set operations have no
                # library contract, so any use of it is out-of-subset)
                yield st, V(Opaque('Set'), z3.Int(eng.name('newset')))
                return
            raise core.EngineError('%s() constructor call' % name)
        return fn
    LIB[_t] = _mk(_t)


# ---------------------------------------------------------------------------------------------
# str / bytes methods

def _str_arg(eng, st, v, line):
    """(state, str value | Raise) for an argument that must be a str."""
    if v.ty.kind == 'any':
        for s1, isstr in eng.fork(st, PV.is_ps(v.t)):
            yield s1, (unbox(v.t, STR) if isstr else R('TypeError', line))
    elif v.ty.kind in ('str', 'bytes', 'bytearray'):
        yield st, v
    else:
        yield st, R('TypeError', line)


@libm('str', 'startswith')
def _startswith(eng, st, recv, args, kwargs, line):
    for s1, a in _str_arg(eng, st, args[0], line):
        yield s1, (a if isinstance(a, core.Raise) else vbool(z3.PrefixOf(a.t, recv.t)))


@libm('str', 'endswith')
def _endswith(eng, st, recv, args, kwargs, line):
    for s1, a in _str_arg(eng, st, args[0], line):
        yield s1, (a if isinstance(a, core.Raise) else vbool(z3.SuffixOf(a.t, recv.t)))


@libm('str', 'lower')
def _lower(eng, st, recv, args, kwargs, line):
    r = py_lower(recv.t)
    # identity on the lower-case ASCII constants the code compares against; idempotent
    for c in LOWER_FIXED:
        eng.fact(st, z3.Implies(recv.t == z3.StringVal(c), r == z3.StringVal(c)))
    eng.fact(st, py_lower(r) == r)
    yield st, vstr(r)


@libm('str', 'strip')
def _strip(eng, st, recv, args, kwargs, line):
    if args:
        r = py_strip_c(recv.t, args[0].t)
        c = args[0].t
        eng.fact(st, z3.Contains(recv.t, r))
        eng.fact(st, z3.Not(z3.PrefixOf(c, r)))
        eng.fact(st, z3.Not(z3.SuffixOf(c, r)))
        eng.fact(st, z3.Implies(z3.And(z3.Not(z3.PrefixOf(c, recv.t)),
                                       z3.Not(z3.SuffixOf(c, recv.t))), r == recv.t))
        eng.fact(st, z3.Length(r) <= z3.Length(recv.t))
    else:
        r = py_strip(recv.t)
        eng.fact(st, z3.Contains(recv.t, r))
        eng.fact(st, py_strip(r) == r)
        eng.fact(st, z3.Length(r) <= z3.Length(recv.t))
        for c in LOWER_FIXED + ['gzip', 'deflate']:
            eng.fact(st, z3.Implies(recv.t == z3.StringVal(c), r == z3.StringVal(c)))
    yield st, vstr(r)


@libm('str', 'split')
def _split(eng, st, recv, args, kwargs, line):
    if len(args) != 1 or args[0].ty.kind != 'str':
        raise core.EngineError('str.split form at line %d' % line)
    for ax in split_axioms(recv.t, args[0].t):
        eng.fact(st, ax)
    yield st, V(List(STR), py_split(recv.t, args[0].t))


@libm('str', 'rsplit')
def _rsplit(eng, st, recv, args, kwargs, line):
    sep = args[0].t
    if len(args) == 2:
        mx = z3.simplify(args[1].t)
        if not (z3.is_int_value(mx) and mx.as_long() == 1):
            raise core.EngineError('rsplit maxsplit')
        r = py_rsplit1(recv.t, sep)
        a, b = r[0], r[1]
        eng.fact(st, z3.If(z3.Contains(recv.t, sep),
                           z3.And(z3.Length(r) == 2, recv.t == z3.Concat(a, sep, b),
                                  z3.Not(z3.Contains(b, sep))),
                           r == z3.Unit(recv.t)))
        yield st, V(List(STR), r)
    else:
        # only the form s.rsplit(sep)[-1] is used: last component
        for ax in split_axioms(recv.t, sep):
            eng.fact(st, ax)
        r = py_split(recv.t, sep)
        last = r[z3.Length(r) - 1]
        eng.fact(st, z3.SuffixOf(last, recv.t))
        yield st, V(List(STR), r)


@libm('str', 'replace')
def _replace(eng, st, recv, args, kwargs, line):
    a, b = args
    r = py_replace_all(recv.t, a.t, b.t)
    yield st, vstr(r)


def _codec_args(args, kwargs, line):
    """(errors mode) of a str.encode / bytes.decode call; only UTF-8 is modelled."""
    enc = args[0] if args else kwargs.get('encoding')
    if enc is not None:
        e = z3.simplify(enc.t) if enc.ty.kind == 'str' else None
        if e is None or not z3.is_string_value(e) or \
                e.as_string().lower().replace('_', '-') not in ('utf-8', 'utf8'):
            raise core.EngineError('codec other than UTF-8 at line %d' % line)
    err = args[1] if len(args) > 1 else kwargs.get('errors')
    mode = 'strict'
    if err is not None:
        e = z3.simplify(err.t) if err.ty.kind == 'str' else None
        if e is None or not z3.is_string_value(e):
            raise core.EngineError('non-constant codec error mode at line %d' % line)
        mode = e.as_string()
    if set(kwargs) - {'encoding', 'errors'} or len(args) > 2:
        raise core.EngineError('codec call form at line %d' % line)
    return mode


utf8_dec_lossy = z3.Function('utf8_dec_lossy', S, S)


@libm('str', 'encode')
def _encode(eng, st, recv, args, kwargs, line):
    if _codec_args(args, kwargs, line) != 'strict':
        raise core.EngineError('str.encode error mode at line %d' % line)
    r = utf8_enc(recv.t)
    eng.fact(st, utf8_ok(r))
    eng.fact(st, utf8_dec(r) == recv.t)
    yield st, V(BYTES, r)


@libm(('bytes', 'bytearray'), 'decode')
def _decode(eng, st, recv, args, kwargs, line):
    mode = _codec_args(args, kwargs, line)
    if mode in ('replace', 'ignore', 'backslashreplace', 'surrogateescape'):
        # a lossy decode never raises; on valid input it is the strict decode
        r = utf8_dec_lossy(recv.t)
        eng.fact(st, z3.Implies(utf8_ok(recv.t), r == utf8_dec(recv.t)))
        yield st, vstr(r)
        return
    if mode != 'strict':
        raise core.EngineError('bytes.decode error mode %r at line %d' % (mode, line))
    for s1, ok in eng.fork(st, utf8_ok(recv.t)):
        if ok:
            yield s1, vstr(utf8_dec(recv.t))
        else:
            yield s1, R('UnicodeDecodeError', line)


@libm('str', 'format')
def _format(eng, st, recv, args, kwargs, line):
    fs = z3.simplify(recv.t)
    if not z3.is_string_value(fs):
        raise core.EngineError('str.format form at line %d' % line)
    import string
    out = z3.StringVal('')
    auto = 0
    for lit, field, spec_, conv in string.Formatter().parse(fs.as_string()):
        if lit:
            out = z3.Concat(out, z3.StringVal(lit))
        if field is not None:
            if spec_ or conv:
                raise core.EngineError('str.format field at line %d' % line)
            if field == '' or field.isdigit():           # positional: '{}' / '{0}'
                i = auto if field == '' else int(field)
                auto += 1
                if i >= len(args):
                    raise core.EngineError('str.format index at line %d' % line)
                out = z3.Concat(out, to_str(eng, args[i]))
                continue
            if field not in kwargs:
                raise core.EngineError('str.format field at line %d' % line)
            out = z3.Concat(out, to_str(eng, kwargs[field]))
    yield st, vstr(z3.simplify(out))


@libm('str', 'isdigit')
def _isdigit(eng, st, recv, args, kwargs, line):
    raise core.EngineError('isdigit')


# ---------------------------------------------------------------------------------------------
# list / dict / record methods

@libm('list', 'append')
def _append(eng, st, recv, args, kwargs, line):
    raise core.EngineError('list.append is handled as a statement')


@libm(('rec',), 'get')
def _rec_get(eng, st, recv, args, kwargs, line):
    ks = z3.simplify(args[0].t)
    dflt = args[1] if len(args) > 1 else VNONE
    if not z3.is_string_value(ks):
        # a table of constants looked up with a symbolic key: an if-then-else chain
        vals = list(recv.t.values())
        if args[0].ty.kind == 'str' and vals and all(v.ty == vals[0].ty for v in vals) and \
                dflt.ty == vals[0].ty and vals[0].ty.kind in ('str', 'int', 'bool'):
            out = dflt.t
            for kk, v in recv.t.items():
                out = z3.If(args[0].t == z3.StringVal(kk), v.t, out)
            yield st, V(vals[0].ty, out)
            return
        raise core.EngineError('record.get with symbolic key at line %d' % line)
    kk = ks.as_string()
    yield st, recv.t.get(kk, dflt)


@libm(('rec',), 'copy')
def _rec_copy(eng, st, recv, args, kwargs, line):
    yield st, V(REC, dict(recv.t))


@libm(('rec',), 'pop')
def _rec_pop(eng, st, recv, args, kwargs, line):
    # only `kwargs.pop(name, default)` on a record that is not used afterwards
    ks = z3.simplify(args[0].t)
    if not z3.is_string_value(ks) or len(args) != 2:
        raise core.EngineError('record.pop form at line %d' % line)
    yield st, recv.t.get(ks.as_string(), args[1])


@libm(('dict',), 'get')
def _dict_get(eng, st, recv, args, kwargs, line):
    key = args[0]
    dflt = args[1] if len(args) > 1 else VNONE
    kt = recv.ty.args[0]
    if key.ty != kt:
        key = eng.coerce(key, kt)
    for s1, present in eng.fork(st, z3.Select(recv.t[0], key.t)):
        if present:
            yield s1, typed_dict_elem(eng, s1, recv, key, z3.Select(recv.t[1], key.t))
        else:
            yield s1, dflt


@libm(('dict',), 'copy')
def _dict_copy(eng, st, recv, args, kwargs, line):
    yield st, recv


@libm(('dict',), 'values')
def _dict_values(eng, st, recv, args, kwargs, line):
    yield st, V(Ty('dictvalues'), recv)


@libm(('dict',), 'items')
def _dict_items(eng, st, recv, args, kwargs, line):
    yield st, V(Ty('dictitems'), recv)


@libm(('rec',), 'items')
def _rec_items(eng, st, recv, args, kwargs, line):
    yield st, V(Ty('pylist'), [V(TUP, (vstr(k), v)) for k, v in recv.t.items()])


@libm(('json',), 'get')
def _json_get(eng, st, recv, args, kwargs, line):
    key = args[0]
    dflt = args[1] if len(args) > 1 else VNONE
    for s1, present in eng.fork(st, j_haskey(recv.t, key.t)):
        if present:
            yield s1, V(ANY, j_get(recv.t, key.t))
        else:
            yield s1, dflt


@libm(('exc',), 'with_traceback')
def _with_tb(eng, st, recv, args, kwargs, line):
    yield st, recv


def any_method(name):
    def fn(eng, st, recv, args, kwargs, line):
        for s1, u in eng.split_any(st, recv):
            m = method(eng, u, name)
            if m is None:
                yield s1, R('AttributeError', line)
            else:
                yield from eng.call(s1, m, args, kwargs, line)
    return fn


# ---------------------------------------------------------------------------------------------
# standard library functions

@lib('sys.exc_info')
def _exc_info(eng, st, args, kwargs, line):
    if st.exc is None:
        raise core.EngineError('sys.exc_info() outside a handler')
    yield st, V(TUP, (V(FN, ('excclass', st.exc.cls)), V(EXC, st.exc), VNONE))


@lib('base64.b64encode')
def _b64encode(eng, st, args, kwargs, line):
    v, = args
    if v.ty.kind == 'any':
        for s1, u in eng.split_any(st, v):
            yield from _b64encode(eng, s1, [u], kwargs, line)
        return
    if v.ty.kind not in ('bytes', 'bytearray'):
        yield st, R('TypeError', line)
        return
    r = b64enc(v.t)
    # RFC 4648 (assumed): ascii output, decodable, inverse
    eng.fact(st, utf8_ok(r))
    eng.fact(st, utf8_dec(r) == r)
    eng.fact(st, b64dec_ok(r))
    eng.fact(st, b64dec(r) == v.t)
    eng.fact(st, z3.Not(z3.Contains(r, z3.StringVal('\x1e'))))
    yield st, V(BYTES, r)


@lib('base64.b64decode')
def _b64decode(eng, st, args, kwargs, line):
    v, = args
    if v.ty.kind == 'any':
        for s1, u in eng.split_any(st, v):
            yield from _b64decode(eng, s1, [u], kwargs, line)
        return
    if v.ty.kind not in ('str', 'bytes'):
        if st.spec:
            yield st, R('TypeError', line)
            return
        yield st, R('TypeError', line)
        return
    for s1, ok in eng.fork(st, b64dec_ok(v.t)):
        if ok:
            yield s1, V(BYTES, b64dec(v.t))
        else:
            yield s1, R('BinasciiError', line)


def json_dumps_axioms(t, r):
    return [
        json_ok(r), json_loads(r) == t, z3.Not(json_rec(r)),
        z3.Length(r) >= 2,
        z3.Not(z3.Contains(r, z3.StringVal('\x1e'))),
        z3.Or(z3.PrefixOf(z3.StringVal('{'), r), z3.PrefixOf(z3.StringVal('['), r)),
    ]


def loads_axioms(s):
    """L-JSON (assumed): shape of what json.loads can return."""
    r = json_loads(s)
    return [
        z3.Implies(json_ok(s), z3.Or(PV.is_pnone(r), PV.is_pb(r), PV.is_pi(r), PV.is_pr(r),
                                     PV.is_ps(r), PV.is_pj(r))),
        z3.Implies(z3.Length(s) == 0, z3.Not(json_ok(s))),
    ]


@lib('json.loads')
def _json_loads(eng, st, args, kwargs, line):
    v = args[0]
    if v.ty.kind == 'any':
        for s1, u in eng.split_any(st, v):
            yield from _json_loads(eng, s1, [u], kwargs, line)
        return
    if v.ty.kind != 'str':
        yield st, R('TypeError', line)
        return
    for ax in loads_axioms(v.t):
        eng.fact(st, ax)
    s1 = eng.assume(st, json_rec(v.t))
    if s1 is not None:
        yield s1, R('RecursionError', line)
    s2 = eng.assume(st, z3.Not(json_rec(v.t)))
    if s2 is None:
        return
    for s3, ok in eng.fork(s2, json_ok(v.t)):
        if ok:
            yield s3, V(ANY, json_loads(v.t))
        else:
            yield s3, R('JSONDecodeError', line)


@lib('json.dumps')
def _json_dumps(eng, st, args, kwargs, line):
    v = args[0]
    compact = False
    if 'separators' in kwargs:
        sep = kwargs['separators']
        ok = sep.ty.kind == 'tup' and len(sep.t) == 2 and all(
            x.ty.kind == 'str' and z3.is_string_value(z3.simplify(x.t)) for x in sep.t)
        if ok and [z3.simplify(x.t).as_string() for x in sep.t] == [',', ':']:
            compact = True
        elif ok and [z3.simplify(x.t).as_string() for x in sep.t] == [', ', ': ']:
            compact = False
        else:
            raise core.EngineError('json.dumps separators at line %d' % line)
    for k in kwargs:
        if k != 'separators':
            raise core.EngineError('json.dumps keyword %s at line %d' % (k, line))
    if v.ty.kind == 'any':
        t = v.t
    elif v.ty.kind == 'rec':
        t = eng.json_object(v)
    else:
        t = box(v)
    f = json_dumps_c if compact else json_dumps_d
    r = f(t)
    eng.fact(st, json_ok(r))
    eng.fact(st, json_loads(r) == t)
    eng.fact(st, z3.Not(json_rec(r)))
    eng.fact(st, z3.Implies(PV.is_pj(t), z3.And(*json_dumps_axioms(t, r)[3:])))
    yield st, vstr(r)


qs_dom = z3.Function('qs_dom', S, z3.ArraySort(S, B))
qs_map = z3.Function('qs_map', S, z3.ArraySort(S, SeqS))


@lib('urllib.parse.parse_qs')
def _parse_qs(eng, st, args, kwargs, line):
    """parse_qs(q): a function of q returning a dict[str, non-empty list[str]] (assumed)."""
    v, = args
    ty = Dict(STR, List(STR))
    dom, mp = qs_dom(v.t), qs_map(v.t)
    k = z3.String(eng.name('k!qs'))
    eng.fact(st, z3.ForAll([k], z3.Implies(z3.Select(dom, k), z3.Length(z3.Select(mp, k)) >= 1)))
    eng.fact(st, card(dom) >= 0)
    yield st, V(ty, (dom, mp))


@lib('urllib.parse.unquote')
def _unquote(eng, st, args, kwargs, line):
    """unquote(s): some function of s (percent-decoding; nothing more is assumed - in particular
    not that it agrees with parse_qs, which also maps '+' to a blank)."""
    if len(args) != 1 or kwargs or args[0].ty.kind != 'str':
        raise core.EngineError('urllib.parse.unquote call form at line %d' % line)
    yield st, vstr(z3.Function('url_unquote', S, S)(args[0].t))


@lib('urllib.parse.parse_qsl')
def _parse_qsl(eng, st, args, kwargs, line):
    """parse_qsl(s): some list of (name, value) pairs determined by s - nothing more is assumed
    (in particular not that every argument of s is kept: blank values are dropped by default)."""
    if len(args) != 1 or kwargs or args[0].ty.kind != 'str':
        raise core.EngineError('urllib.parse.parse_qsl call form at line %d' % line)
    yield st, V(List(SS_T), z3.Function('url_parse_qsl', S, z3.SeqSort(SS))(args[0].t))


@lib('urllib.parse.urlencode')
def _urlencode(eng, st, args, kwargs, line):
    """urlencode(pairs): some string determined by the list of pairs - nothing more is assumed."""
    if len(args) != 1 or kwargs or args[0].ty.kind != 'list' or args[0].ty.args[0].kind != 'ss':
        raise core.EngineError('urllib.parse.urlencode call form at line %d' % line)
    yield st, vstr(z3.Function('url_urlencode', z3.SeqSort(SS), S)(args[0].t))


@lib('time.time')
def _time(eng, st, args, kwargs, line):
    now = st.ghost.get('now')
    if now is None:
        raise core.EngineError('time.time() needs the ghost clock `now`')
    yield st, now


@lib('secrets.token_bytes')
def _token_bytes(eng, st, args, kwargs, line):
    n, = args
    r = z3.String(eng.name('csprng'))
    eng.fact(st, z3.Length(r) == n.t)
    if 'csprng' in st.ghost:
        st.ghost['csprng'] = V(List(BYTES), z3.Concat(st.ghost['csprng'].t, z3.Unit(r)))
        eng._wrote(st, ('ghost', 'csprng'))
    yield st, V(BYTES, r)


be3 = z3.Function('be3', I, S)


@libm('int', 'to_bytes')
def _to_bytes(eng, st, recv, args, kwargs, line):
    n = z3.simplify(args[0].t)
    order = z3.simplify(args[1].t)
    if not (z3.is_int_value(n) and z3.is_string_value(order) and
            order.as_string() == 'big'):
        raise core.EngineError('int.to_bytes form at line %d' % line)
    nb = n.as_long()
    for s1, ok in eng.fork(st, z3.And(recv.t >= 0, recv.t < 256 ** nb)):
        if ok:
            r = be3(recv.t) if nb == 3 else z3.Function('be%d' % nb, I, S)(recv.t)
            eng.fact(s1, z3.Length(r) == nb)
            yield s1, V(BYTES, r)
        else:
            yield s1, R('OverflowError', line)


@lib('os.path.exists')
def _exists(eng, st, args, kwargs, line):
    b = z3.Function('fs_exists', S, B)(args[0].t)
    yield st, vbool(b)


@lib('os.path.join')
def _path_join(eng, st, args, kwargs, line):
    """posixpath.join over str components: a component that starts with '/' discards everything
    before it; otherwise components are joined with exactly one '/' (assumed contract, POSIX)."""
    if not args or any(a.ty.kind != 'str' for a in args) or kwargs:
        raise core.EngineError('os.path.join on non-str arguments at line %d' % line)
    r = args[0].t
    for b in args[1:]:
        b = b.t
        r = z3.If(z3.PrefixOf(z3.StringVal('/'), b), b,
                  z3.If(z3.Or(z3.Length(r) == 0, z3.SuffixOf(z3.StringVal('/'), r)),
                        z3.Concat(r, b), z3.Concat(r, z3.StringVal('/'), b)))
    yield st, vstr(r)


# ---------------------------------------------------------------------------------------------
# further str methods (assumed contracts; mostly uninterpreted with the axioms that matter)

py_count = z3.Function('py_count', S, S, I)
py_isdigit = z3.Function('py_isdigit', S, B)
py_upper = z3.Function('py_upper', S, S)
py_lstrip = z3.Function('py_lstrip', S, S)
py_rstrip = z3.Function('py_rstrip', S, S)


@libm('str', 'count')
def _count(eng, st, recv, args, kwargs, line):
    sub = args[0]
    if sub.ty.kind != 'str':
        yield st, R('TypeError', line)
        return
    r = py_count(recv.t, sub.t)
    eng.fact(st, r >= 0)
    eng.fact(st, (r == 0) == z3.Not(z3.Contains(recv.t, sub.t)))
    eng.fact(st, z3.Implies(z3.Length(sub.t) > 0,
                            z3.Length(py_split(recv.t, sub.t)) == r + 1))
    yield st, vint(r)


@libm('str', 'isdigit')
def _isdigit2(eng, st, recv, args, kwargs, line):
    r = py_isdigit(recv.t)
    eng.fact(st, z3.Implies(z3.Length(recv.t) == 0, z3.Not(r)))
    eng.fact(st, z3.Implies(is_ascii_digit(recv.t), r))
    eng.fact(st, z3.Implies(r, z3.Not(z3.PrefixOf(z3.StringVal('-'), recv.t))))
    n = z3.StrToInt(recv.t)
    eng.fact(st, z3.Implies(z3.And(n >= 0, recv.t == z3.IntToStr(n)), r))
    yield st, vbool(r)


LIBM[('str', 'isdecimal')] = _isdigit2
LIBM[('str', 'isnumeric')] = _isdigit2


@libm('str', 'find')
def _find(eng, st, recv, args, kwargs, line):
    yield st, vint(z3.IndexOf(recv.t, args[0].t, 0))


@libm('str', 'index')
def _sindex(eng, st, recv, args, kwargs, line):
    i = z3.IndexOf(recv.t, args[0].t, 0)
    for s1, ok in eng.fork(st, i >= 0):
        if ok:
            yield s1, vint(i)
        else:
            yield s1, R('ValueError', line)


@libm('str', 'upper')
def _upper(eng, st, recv, args, kwargs, line):
    yield st, vstr(py_upper(recv.t))


@libm('str', 'lstrip')
def _lstrip(eng, st, recv, args, kwargs, line):
    r = py_lstrip(recv.t) if not args else z3.Function('py_lstrip_c', S, S, S)(recv.t, args[0].t)
    eng.fact(st, z3.SuffixOf(r, recv.t))
    yield st, vstr(r)


@libm('str', 'rstrip')
def _rstrip(eng, st, recv, args, kwargs, line):
    r = py_rstrip(recv.t) if not args else z3.Function('py_rstrip_c', S, S, S)(recv.t, args[0].t)
    eng.fact(st, z3.PrefixOf(r, recv.t))
    yield st, vstr(r)


@libm('str', 'join')
def _join(eng, st, recv, args, kwargs, line):
    xs = args[0]
    if xs.ty.kind == 'list' and xs.ty.args[0].kind == 'str':
        yield st, vstr(join_sep(recv.t, xs.t))
    elif xs.ty.kind == 'list' and xs.ty.args[0].kind == 'bot':
        yield st, vstr('')
    else:
        raise core.EngineError('str.join of %r at line %d' % (xs.ty, line))


@libm('str', 'partition')
def _partition(eng, st, recv, args, kwargs, line):
    sep = args[0].t
    i = z3.IndexOf(recv.t, sep, 0)
    a = z3.If(i >= 0, z3.SubString(recv.t, 0, i), recv.t)
    m = z3.If(i >= 0, sep, z3.StringVal(''))
    b = z3.If(i >= 0, z3.SubString(recv.t, i + z3.Length(sep), z3.Length(recv.t)), z3.StringVal(''))
    yield st, V(TUP, (vstr(a), vstr(m), vstr(b)))


@lib('reversed')
def _reversed(eng, st, args, kwargs, line):
    xs = args[0]
    if xs.ty.kind != 'list' or xs.ty.args[0].kind == 'bot':
        yield st, xs
        return
    r = z3.Function('seq_reverse_%s' % str(xs.t.sort()).replace(' ', '').replace('(', '').replace(
        ')', ''), xs.t.sort(), xs.t.sort())(xs.t)
    n = z3.Length(xs.t)
    eng.fact(st, z3.Length(r) == n)
    k = z3.Int(eng.name('k!rev'))
    q = z3.ForAll([k], z3.Implies(z3.And(k >= 0, k < n), r[k] == xs.t[n - 1 - k]))
    eng.quants[q.get_id()] = (q, [k], [k >= 0, k < n], r[k] == xs.t[n - 1 - k])
    eng.fact(st, q)
    yield st, V(xs.ty, r)


@lib('sorted')
def _sorted(eng, st, args, kwargs, line):
    xs = args[0]
    if xs.ty.kind != 'list' or xs.ty.args[0].kind == 'bot':
        yield st, xs
        return
    r = z3.Const(eng.name('sorted'), xs.t.sort())
    eng.fact(st, z3.Length(r) == z3.Length(xs.t))
    yield st, V(xs.ty, r)
