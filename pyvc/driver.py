"""Property check driver: verifies the functions of one property in a process pool, discharges
the obligations, applies known-finding regions, replays counterexamples, writes evidence."""
import hashlib
import importlib
import json
import multiprocessing as mp
import os
import subprocess
import sys
import time
import traceback

ROOT = os.path.dirname(os.path.dirname(os.path.abspath(__file__)))
NATIVE_BUILDABLE = {'Packet', 'Payload'}
STRUCTURAL = ('pre@callsite', 'frame', 'assert', 'loop-complete', 'cut', 'inv-init', 'inv-keep', 'unexpected-exception', 'variant',
              'raises', 'no-raise')


def load_known_findings():
    p = os.path.join(ROOT, 'known_findings.json')
    if not os.path.exists(p):
        return []
    with open(p) as f:
        return json.load(f).get('findings', [])


def _budget(tier):
    if tier == 'thorough':
        return dict(z3_ms=5000, cvc5_s=120, z3_s=120, both=False)
    return dict(z3_ms=2000, cvc5_s=40, z3_s=40, both=False)


def work_function(args):
    """Runs in a worker process: one function under contract."""
    qualname, tier, prop = args[:3]
    shard = args[3] if len(args) > 3 else None
    import z3
    from . import core, solve
    from .contract import REG
    import contracts  # noqa: fills REG
    t0 = time.time()
    out = {'func': qualname, 'results': [], 'error': None, 'paths': 0}
    try:
        eng = core.Engine()
        eng.shard = shard
        eng.known = [k for k in load_known_findings() if k.get('status') == 'open']
        mod, cls, node = eng.src.find(qualname)
        out['file'] = os.path.relpath(mod.path, '/repo')
        out['lines'] = [node.lineno, node.end_lineno]
        out['sha256'] = eng.src.sha(mod, node)
        c = REG.contracts.get(qualname)
        if c is not None and c.trusted:
            out['trusted'] = c.trusted_reason
            return out
        obls, npaths = eng.verify_function(qualname)
        out['paths'] = npaths
        out['libuse'] = sorted(eng.libuse)
        out['dropped'] = list(eng.dropped)
        out['gen_s'] = time.time() - t0
        out['prune'] = eng.stats
        b = _budget(tier)
        # quick tier: the clauses tagged with the property plus all structural obligations;
        # thorough tier: EVERY obligation of the listed functions (the property rests on the whole
        # contract chain), with larger solver budgets
        todo = [o for o in obls if not (
            prop is not None and tier != 'thorough' and o.kind not in STRUCTURAL and
            o.kind != 'canary' and o.kind != 'kf-repro' and prop not in o.props)]

        def solve_one(o):
            def on_model(m, eng=eng):
                try:
                    rd = solve.ModelReader(eng, m, eng.cur_pre.heap, eng.cur_pre.ghost)
                    return {'params': rd.params(eng.cur_penv), 'objects': rd.objects}
                except Exception as e:
                    return {'error': str(e)}
            r = solve.solve_quick(o, z3_ms=b['z3_ms'],
                                  on_model=None if o.kind in ('canary', 'kf-repro') else on_model)
            rec = {'id': o.oid, 'func': o.func, 'kind': o.kind, 'label': o.label,
                   'replay': r.get('replay'),
                   'props': o.props, 'line': o.line, 'note': o.note, 'status': r['status'],
                   'backend': r['backend'], 'time_s': round(r['time_s'], 4),
                   'model': r.get('model'), 'trace': list(o.trace),
                   'kf': getattr(o, 'kf', None),
                   # the reproduction query of a known finding only decides whether its line is
                   # printed (printed unless unsat): it gets the short in-process attempt only
                   'smt2': None if o.kind == 'kf-repro' else r.get('smt2')}
            if r['status'] != 'unsat':
                rec['smt_premises'] = len(o.premises)
                rec['goal'] = str(z3.simplify(o.goal))[:600]
            return rec

        if len(todo) > 250:
            # a large function: the obligations are solved by forked helpers (each inherits the
            # z3 terms by copy-on-write) so that one function does not serialise the whole check
            import pickle
            nchild = 6
            pipes = []
            for ci in range(nchild):
                rfd, wfd = os.pipe()
                pid = os.fork()
                if pid == 0:
                    os.close(rfd)
                    try:
                        part = [solve_one(o) for o in todo[ci::nchild]]
                        data = pickle.dumps(part)
                    except BaseException:
                        data = pickle.dumps({'error': traceback.format_exc()})
                    with os.fdopen(wfd, 'wb') as w:
                        w.write(data)
                    os._exit(0)
                os.close(wfd)
                pipes.append((pid, rfd))
            for pid, rfd in pipes:
                with os.fdopen(rfd, 'rb') as rf:
                    data = rf.read()
                os.waitpid(pid, 0)
                part = pickle.loads(data)
                if isinstance(part, dict):
                    raise RuntimeError('solver helper failed: ' + part['error'])
                out['results'].extend(part)
        else:
            for o in todo:
                out['results'].append(solve_one(o))
        if out['results']:
            for rec in out['results'][:2]:
                if 'goal' not in rec:
                    rec['goal'] = '(discharged)'
    except core.EngineError as e:
        out['error'] = 'out-of-subset/contract drift: %s' % e
    except Exception:
        out['error'] = 'checker failure: ' + traceback.format_exc()
        out['crash'] = True
    out['wall_s'] = time.time() - t0
    return out


def work_lemma(args):
    name, tier = args
    import z3
    from . import core, solve
    from .contract import REG
    import contracts  # noqa
    t0 = time.time()
    out = {'func': 'lemma:' + name, 'results': [], 'error': None, 'paths': 0, 'lemma': True}
    try:
        lem = [l for l in REG.lemmas if l.name == name][0]
        eng = core.Engine()
        eng.known = []
        obls = eng.lemma_obligations(lem)
        b = _budget(tier)
        for o in obls:
            r = solve.export_only(o) if len(obls) > 4 else solve.solve_quick(o, z3_ms=b['z3_ms'])
            rec = {'id': o.oid, 'func': o.func, 'kind': o.kind, 'label': o.label,
                   'untried': r.get('untried', False),
                   'props': o.props, 'line': 0, 'note': o.note, 'status': r['status'],
                   'backend': r['backend'], 'time_s': round(r['time_s'], 4),
                   'model': r.get('model'), 'trace': [], 'kf': None, 'smt2': r.get('smt2')}
            if r['status'] != 'unsat' or not out['results']:
                rec['goal'] = str(z3.simplify(o.goal))[:600]
            out['results'].append(rec)
    except core.EngineError as e:
        out['error'] = 'lemma not expressible: %s' % e
    except Exception:
        out['error'] = 'checker failure: ' + traceback.format_exc()
        out['crash'] = True
    out['wall_s'] = time.time() - t0
    return out


def run_property(prop, tier='quick', seed=0, jobs=12):
    """Returns exit code; prints VIOLATION / KNOWN-FINDING lines; writes the evidence file."""
    t0 = time.time()
    sys.path.insert(0, ROOT)
    from .contract import REG
    import contracts  # noqa
    pm = importlib.import_module('props.' + prop)
    funcs = list(pm.FUNCTIONS)
    lemmas = [l.name for l in REG.lemmas if prop in l.props]
    if os.environ.get('PYVC_ONLY'):          # debugging aid: a subset of functions, no evidence
        funcs = os.environ['PYVC_ONLY'].split(',')
        lemmas = []
        os.environ['PYVC_NO_EVIDENCE'] = '1'
    tasks = []
    for q in funcs:
        c = REG.contracts.get(q)
        n = getattr(c, 'shards', 1) if c is not None else 1
        if n > 1:
            tasks += [(work_function, (q, tier, prop, (i, n))) for i in range(n)]
        else:
            tasks.append((work_function, (q, tier, prop)))
    tasks += [(work_lemma, (n, tier)) for n in lemmas]
    ctx = mp.get_context('fork')
    from . import solve
    b = _budget(tier)
    with ctx.Pool(jobs) as pool:
        asyncs = [pool.apply_async(f, (a,)) for f, a in tasks]
        outs = [a.get() for a in asyncs]
        # merge the shards of one function (obligations of the shared path prefix are deduplicated)
        merged = {}
        order = []
        for o in outs:
            k = o['func']
            if k not in merged:
                merged[k] = o
                order.append(k)
                o['_ids'] = set(r['id'] for r in o['results'])
                continue
            m = merged[k]
            m['paths'] = (m.get('paths') or 0) + (o.get('paths') or 0)
            m['wall_s'] = max(m.get('wall_s', 0), o.get('wall_s', 0))
            if o.get('error') and not m.get('error'):
                m['error'] = o['error']
                m['crash'] = o.get('crash')
            m['libuse'] = sorted(set(m.get('libuse', [])) | set(o.get('libuse', [])))
            for r in o['results']:
                if r['id'] not in m['_ids']:
                    m['_ids'].add(r['id'])
                    m['results'].append(r)
        outs = [merged[k] for k in order]
        for o in outs:
            if o.get('paths') == 0 and not o.get('error') and not o.get('trusted') and \
                    not o.get('lemma'):
                o['error'] = 'out-of-subset/contract drift: no feasible path'
        # stage 2: obligations the short in-process z3 attempt left open
        open_ = [(o, r) for o in outs for r in o['results'] if r.get('smt2')]
        res2 = pool.map(solve.solve_text,
                        [(r['smt2'], b['cvc5_s'], b['z3_s'], b['both'], r.get('untried'))
                         for _, r in open_])
        for (o, r), r2 in zip(open_, res2):
            r['stage1_time_s'] = r['time_s']
            r['time_s'] = round(r['time_s'] + r2['time_s'], 4)
            r['backend'] = r2['backend']
            r['status'] = r2['status']
            if r2['status'] == 'disagree':
                r['status'] = 'unknown'
                o['error'] = 'checker failure: back ends disagree on ' + r['id']
                o['crash'] = True
            del r['smt2']

    known = load_known_findings()
    base_out = {}
    violations = []
    undecided = []
    crashes = []
    kf_lines = []
    n_obl = n_dis = 0
    by_backend = {}
    solver_time = 0.0
    fun_rows = []
    samples = []
    canary_ok = True
    trusted = []
    libuse = set()
    for o in outs:
        if o.get('trusted'):
            trusted.append('%s: %s' % (o['func'], o['trusted']))
            continue
        row = {'function': o['func'], 'file': o.get('file'), 'lines': o.get('lines'),
               'sha256': o.get('sha256'), 'paths': o.get('paths'),
               'in_subset': o['error'] is None,
               'obligations': 0, 'discharged': 0, 'wall_s': round(o.get('wall_s', 0), 2),
               'generation_s': round(o.get('gen_s', 0), 2)}
        libuse.update(o.get('libuse', []))
        trusted.extend(o.get('dropped', []))
        if o['error']:
            row['error'] = o['error'][-1500:]
            (crashes if o.get('crash') else undecided).append((o['func'], o['error']))
        for r in o['results']:
            solver_time += r['time_s']
            if r['kind'] == 'canary':
                if r['status'] == 'unsat':
                    canary_ok = False
                    crashes.append((o['func'], 'canary proved: contradictory premises'))
                continue
            if r['kind'] == 'kf-repro':
                # printed unless the region has become unreachable (unsat): a solver that cannot
                # decide the reproduction query must not hide a listed finding
                if r['status'] != 'unsat' and prop in r['kf'].get('properties', [prop]):
                    kf = r['kf']
                    line = 'KNOWN-FINDING: property=%s %s' % (prop, kf['text'])
                    if line not in kf_lines:
                        kf_lines.append(line)
                continue
            n_obl += 1
            row['obligations'] += 1
            if r['status'] == 'unsat':
                n_dis += 1
                row['discharged'] += 1
                by_backend[r['backend']] = by_backend.get(r['backend'], 0) + 1
                if len(samples) < 6 and r.get('goal'):
                    samples.append({'obligation': r['id'], 'goal': r['goal'],
                                    'verdict': 'discharged', 'backend': r['backend'],
                                    'time_s': r['time_s']})
            elif r['status'] == 'sat':
                violations.append(r)
            else:
                # An obligation that was discharged on the unchanged tree (committed baseline) and
                # is no longer discharged although its module's source changed is reported as a
                # violation without a failing input; with unchanged source it is solver
                # instability and stays undecided.
                key = '%s#%s:%s' % (r['func'], r['kind'], r['label'])
                base = baseline()
                modsha = module_sha(r['func'])
                changed = base.get('module_sha', {}).get(module_of(r['func'])) not in (None, modsha)
                if key in base.get('discharged', ()) and changed:
                    r['undischarged'] = True
                    violations.append(r)
                elif changed and r.get('goal') == 'False' and key not in base.get('discharged', ()) \
                        and module_of(r['func']) in base.get('module_sha', {}):
                    # "this path must not exist" (an exception the contract does not allow, an early
                    # loop exit, a write to a shared constant ...) on a path the unchanged tree did
                    # not have: the change created it and the solver cannot show it infeasible
                    r['undischarged'] = True
                    r['new_path'] = True
                    violations.append(r)
                else:
                    undecided.append((r['id'], 'solver: unknown'))
        if os.environ.get('PYVC_WRITE_BASELINE') and not o.get('lemma') and not o['error']:
            base_out.setdefault('module_sha', {})[module_of(o['func'])] = module_sha(o['func'])
            for r in o['results']:
                if r['status'] == 'unsat' and r['kind'] not in ('canary', 'kf-repro'):
                    base_out.setdefault('discharged', set()).add(
                        '%s#%s:%s' % (r['func'], r['kind'], r['label']))
        fun_rows.append(row)
    # property-level structural obligations (e.g. C18: both implementations are bound to one
    # contract text)
    extra_rows = []
    if hasattr(pm, 'extra_checks'):
        for oid, ok, note in pm.extra_checks(REG):
            n_obl += 1
            extra_rows.append({'obligation': oid, 'verdict': 'discharged' if ok else 'FAILED',
                               'note': note, 'backend': 'structural comparison'})
            if ok:
                n_dis += 1
                by_backend['structural'] = by_backend.get('structural', 0) + 1
            else:
                violations.append({'id': oid, 'func': oid.split('#')[0], 'kind': 'same-contract',
                                   'label': oid.split('#')[-1], 'line': 0, 'note': note,
                                   'status': 'sat', 'backend': 'structural comparison',
                                   'time_s': 0.0, 'model': None, 'trace': []})
    if n_obl == 0 and not crashes and not undecided:
        crashes.append((prop, 'zero obligations generated'))

    # replay of refuted obligations
    vio_lines = []
    os.makedirs(os.path.join(ROOT, 'replays'), exist_ok=True)
    seen = set()
    for r in violations:
        key = (r['func'], r['kind'], r['label'])
        if key in seen:
            continue
        seen.add(key)
        rp = write_replay(prop, r, pm)
        suffix = '' if rp['confirmed'] else ' no-failing-input-found'
        if rp.get('spurious'):
            undecided.append((r['id'], 'counter-model does not replay and function unchanged'))
            continue
        vio_lines.append('VIOLATION property=%s replay=%s%s' % (prop, rp['path'], suffix))

    for l in kf_lines:
        print(l)
    for l in vio_lines:
        print(l)
    if crashes:
        code = 3
    elif vio_lines:
        code = 1
    elif undecided:
        code = 2
    else:
        code = 0
    for f, e in crashes:
        print('CHECKER-FAILURE %s: %s' % (f, e.strip().splitlines()[-1] if e else ''))
    for f, e in undecided:
        print('UNDECIDED %s: %s' % (f, e.strip().splitlines()[-1][:300]))
    if os.environ.get('PYVC_VERBOSE'):
        for o in outs:
            for r in o['results']:
                if r['status'] != 'unsat' and r['kind'] not in ('canary', 'kf-repro'):
                    print('  --', r['status'], r['id'], '|', (r.get('note') or '')[:100])
                    if os.environ.get('PYVC_VERBOSE') == '2':
                        print('     goal:', r.get('goal'),
                              '\n     model:', json.dumps(r.get('model'))[:1500])

    ev = {
        'property_id': prop, 'tier': tier, 'seed': seed,
        'level': 'proof' if code == 0 else 'other',
        'coverage': {
            'obligations': n_obl, 'discharged': n_dis,
            'checker_cmd': './check %s --tier %s' % (prop, tier),
            'trusted_base': sorted(set(getattr(pm, 'TRUSTED', []) + trusted +
                                       ['library contract: ' + x for x in sorted(libuse)])),
            'functions_under_contract': fun_rows,
            'lemmas': lemmas,
            'by_backend': by_backend,
            'solver_time_s': round(solver_time, 3),
            'bounded': getattr(pm, 'BOUNDED', []),
            'known_findings': kf_lines,
            'not_decided': getattr(pm, 'NOT_DECIDED', []),
            'undecided': [list(x) for x in undecided][:40],
            'checker_failures': [list(x) for x in crashes][:20],
            'violations': vio_lines,
            'samples': samples + extra_rows[:4],
            'structural_checks': extra_rows,
            'slowest': sorted([[r['time_s'], r['id'], r['backend']] for o in outs
                               for r in o['results']], reverse=True)[:8],
            'explanation': 'contract-based deductive verification: VCs generated from the AST '
                           'of the real functions against sidecar contracts, discharged by SMT '
                           '(exit code %d)' % code,
            'vacuity': {'canaries_refuted': canary_ok},
        },
        'assumptions': getattr(pm, 'ASSUMPTIONS', []),
        'wall_s': round(time.time() - t0, 2),
        'violations': len(vio_lines),
    }
    if os.environ.get('PYVC_WRITE_BASELINE') and code == 0:
        pth = os.environ['PYVC_WRITE_BASELINE']
        cur = json.load(open(pth)) if os.path.exists(pth) else {}
        cur.setdefault('module_sha', {}).update(base_out.get('module_sha', {}))
        cur['discharged'] = sorted(set(cur.get('discharged', [])) |
                                   set(base_out.get('discharged', ())))
        json.dump(cur, open(pth, 'w'), indent=0)
    if not os.environ.get('PYVC_NO_EVIDENCE'):
        os.makedirs(os.path.join(ROOT, 'evidence'), exist_ok=True)
        with open(os.path.join(ROOT, 'evidence', prop + '.json'), 'w') as f:
            json.dump(ev, f, indent=1, default=str)
    print('%s: %d/%d obligations discharged, %d functions, %d lemmas, %.1fs, exit %d'
          % (prop, n_dis, n_obl, len(fun_rows), len(lemmas), time.time() - t0, code))
    return code


def write_replay(prop, r, pm):
    """Writes the replay file for a refuted obligation and tries to confirm it natively."""
    safe = ''.join(ch if ch.isalnum() or ch in '._-' else '_' for ch in
                   '%s-%s-%s' % (r['func'], r['kind'], r['label']))[:120]
    path = os.path.join('replays', '%s-%s.json' % (prop, safe))
    rec = {'property': prop, 'obligation': r['id'], 'function': r['func'], 'kind': r['kind'],
           'verdict': ('obligation discharged on the unchanged tree is no longer discharged '
                       '(solver: unknown) after a source change' if r.get('undischarged')
                       else 'obligation refuted (solver: sat)'),
           'label': r['label'], 'line': r['line'], 'note': r['note'], 'goal': r.get('goal'),
           'solver': {'status': r['status'], 'backend': r['backend'], 'time_s': r['time_s']},
           'model': r.get('model'), 'inputs': r.get('replay'), 'trace': r.get('trace'),
           'confirmed': False, 'native': None}
    hook = getattr(pm, 'REPLAY', {}).get(r['func'])
    from .contract import REG
    c = REG.contracts.get(r['func'])
    if c is not None:
        try:
            from .source import Source
            node = Source().find(r['func'])[2]
            order = [a.arg for a in node.args.args]
        except Exception:
            order = list(c.params)
        rec['contract'] = {
            'requires': [[cl.label, cl.src] for cl in c.requires_],
            'ensures': [[cl.label, cl.src] for cl in c.ensures_],
            'raises': [[rc.exc, rc.when, rc.exact, rc.label] for rc in c.raises_],
            'param_order': order}
        ptys = []
        for t in c.params.values():
            ptys += t if isinstance(t, list) else [t]
        if hook is None and all(t.kind != 'ref' or t.args[0] in NATIVE_BUILDABLE
                                for t in ptys) and \
                all(t.kind not in ('dict', 'rec', 'opaque', 'tup') for t in ptys):
            hook = 'generic'
    confirmed = False
    if hook is not None:
        with open(os.path.join(ROOT, path), 'w') as f:
            json.dump(rec, f, indent=1, default=str)
        try:
            p = subprocess.run(['/venv/bin/python', os.path.join(ROOT, 'props', 'replay.py'),
                                hook, os.path.join(ROOT, path)], capture_output=True, text=True,
                               timeout=120, env=dict(os.environ, PYTHONPATH=os.path.dirname(
                                   os.environ.get('PYVC_REPO_SRC', '/repo/src/engineio')) +
                                   ':' + ROOT))
            rec['native'] = {'stdout': p.stdout[-3000:], 'stderr': p.stderr[-2000:],
                             'rc': p.returncode}
            confirmed = p.returncode == 1 and 'REPLAY-CONFIRMED' in p.stdout
        except Exception as e:
            rec['native'] = {'error': str(e)}
    rec['confirmed'] = confirmed
    # a refuted obligation that was discharged on the unchanged tree, in a function whose source
    # changed, is reported even without a native failing input
    base = baseline()
    known_ok = (r['func'] + '#' + r['kind'] + ':' + r['label']) in base.get('discharged', [])
    changed = base.get('sha', {}).get(r['func']) not in (None, function_sha(r['func']))
    if not confirmed and not r.get('undischarged') and \
            base.get('module_sha', {}).get(module_of(r['func'])) == module_sha(r['func']) and \
            (r['func'] + '#' + r['kind'] + ':' + r['label']) in base.get('discharged', ()):
        # the solver refutes, on unchanged source, an obligation it discharged for the
        # committed baseline and the model does not replay: solver instability, not a violation
        rec['spurious'] = True
    with open(os.path.join(ROOT, path), 'w') as f:
        json.dump(rec, f, indent=1, default=str)
    rec['path'] = path
    return rec


_BASE = None


def baseline():
    global _BASE
    if _BASE is None:
        p = os.path.join(ROOT, 'baseline_obligations.json')
        _BASE = json.load(open(p)) if os.path.exists(p) else {}
    return _BASE


def module_of(qualname):
    from .source import Source
    try:
        return Source().find(qualname)[0].name
    except Exception:
        return qualname.split('.')[0]


def module_sha(qualname):
    from .source import Source
    try:
        mod = Source().find(qualname)[0]
        return hashlib.sha256(mod.text.encode()).hexdigest()
    except Exception:
        return None


def function_sha(qualname):
    from .source import Source
    try:
        s = Source()
        mod, cls, node = s.find(qualname)
        return s.sha(mod, node)
    except Exception:
        return None


def main(argv):
    import argparse
    ap = argparse.ArgumentParser()
    ap.add_argument('prop')
    ap.add_argument('--tier', default=os.environ.get('VERIF_TIER', 'quick'))
    ap.add_argument('--jobs', type=int, default=12)
    a = ap.parse_args(argv)
    seed = int(os.environ.get('VERIF_SEED', '0') or 0)
    return run_property(a.prop, a.tier, seed, a.jobs)


if __name__ == '__main__':
    sys.exit(main(sys.argv[1:]))
