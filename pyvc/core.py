"""pyvc core: path-splitting symbolic executor over the Python AST of the real functions,
emitting proof obligations against sidecar contracts."""
import ast
import os
import itertools
import time
import z3

from .values import *  # noqa
from .contract import REG, Contract, Clause
from .source import Source


def st_spec_only(eng):
    return False


def term_size(t, cap):
    """Number of AST nodes of t, counted up to cap."""
    n = 0
    todo = [t]
    while todo and n < cap:
        x = todo.pop()
        n += 1
        todo.extend(x.children())
    return n


class EngineError(Exception):
    """The function is outside the supported subset / contract drift (exit 2, never a violation)."""


class Raise:
    """An exceptional outcome."""
    __slots__ = ('cls', 'args', 'line')

    def __init__(self, cls, args=(), line=0):
        self.cls = cls
        self.args = tuple(args)
        self.line = line

    def __repr__(self):
        return 'Raise(%s@%d)' % (self.cls, self.line)


EXC_PARENT = {
    'BaseException': None, 'Exception': 'BaseException', 'KeyboardInterrupt': 'BaseException',
    'SystemExit': 'BaseException', 'CancelledError': 'BaseException',
    'GeneratorExit': 'BaseException', 'BrokenPipeError': 'OSError',
    'WebSocketConnectionClosedException': 'Exception', 'WebSocketTimeoutException': 'Exception',
    'ServerDisconnectedError': 'Exception', 'ClientError': 'Exception',
    'ArithmeticError': 'Exception', 'ZeroDivisionError': 'ArithmeticError',
    'OverflowError': 'ArithmeticError',
    'LookupError': 'Exception', 'KeyError': 'LookupError', 'IndexError': 'LookupError',
    'ValueError': 'Exception', 'UnicodeError': 'ValueError', 'UnicodeDecodeError': 'UnicodeError',
    'UnicodeEncodeError': 'UnicodeError', 'JSONDecodeError': 'ValueError',
    'BinasciiError': 'ValueError',
    'TypeError': 'Exception', 'AttributeError': 'Exception', 'RuntimeError': 'Exception',
    'RecursionError': 'RuntimeError', 'OSError': 'Exception', 'TimeoutError': 'OSError',
    'ConnectionError_': 'OSError', 'ImportError': 'Exception', 'StopIteration': 'Exception',
    'AssertionError': 'Exception',
    'QueueEmptyLib': 'Exception',      # queue.Empty / asyncio.QueueEmpty / gevent Empty
    'AnyException': 'Exception',       # an arbitrary other Exception subclass (handlers)
    'EngineIOError': 'Exception', 'ContentTooLongError': 'EngineIOError',
    'UnknownPacketError': 'EngineIOError', 'QueueEmpty': 'EngineIOError',
    'SocketIsClosedError': 'EngineIOError', 'ConnectionError': 'EngineIOError',
}


def exc_is_sub(c, anc):
    while c is not None:
        if c == anc:
            return True
        c = EXC_PARENT.get(c)
    return False


class State:
    __slots__ = ('pc', 'env', 'heap', 'ghost', 'writes', 'pre', 'exc', 'trace', 'spec',
                 'entry_env', 'loopw', 'notes', 'tags', 'sharded', 'qpc')

    def __init__(self):
        self.pc = []
        self.env = {}
        self.heap = {}
        self.ghost = {}
        self.writes = set()
        self.pre = None
        self.exc = None
        self.trace = ()
        self.spec = False
        self.entry_env = None
        self.loopw = None
        self.notes = ()
        self.tags = {}
        self.sharded = False
        self.qpc = []       # quantified path facts: part of every obligation, not of pruning

    def copy(self):
        s = State()
        s.pc = list(self.pc)
        s.env = self.env          # env dicts are copied on write (see Engine.setlocal)
        s.heap = dict(self.heap)
        s.ghost = dict(self.ghost)
        s.writes = set(self.writes)
        s.pre = self.pre
        s.exc = self.exc
        s.trace = self.trace
        s.spec = self.spec
        s.entry_env = self.entry_env
        s.loopw = None if self.loopw is None else set(self.loopw)
        s.notes = self.notes
        s.tags = dict(self.tags)
        s.sharded = self.sharded
        s.qpc = list(self.qpc)
        return s


class Obligation:
    def __init__(self, func, kind, label, props, premises, goal, line=0, trace=(), note=''):
        self.func = func
        self.kind = kind
        self.label = label
        self.props = list(props or [])
        self.premises = list(premises)
        self.goal = goal
        self.line = line
        self.trace = trace
        self.note = note
        self.inputs = {}       # name -> z3 const (for model extraction)

    @property
    def oid(self):
        tr = '-'.join(str(x) for x in self.trace[-12:])
        return '%s#%s:%s@L%d[%s]' % (self.func, self.kind, self.label, self.line, tr)


class Engine:
    def __init__(self, source=None, reg=None, prune_ms=250):
        self.src = source or Source()
        self.reg = reg or REG
        self.obls = []
        self.counter = itertools.count()
        self.prune_ms = prune_ms
        self.cur_func = None
        self.cur_contract = None
        self.dropped = []           # what the normalisation dropped (evidence)
        self.assumed = []           # library axiom instances used
        self.inputs = {}            # input symbol name -> z3 const
        self.stats = {'paths': 0, 'prune_calls': 0, 'prune_time': 0.0}
        self.libuse = set()
        self.facts = []
        self._fact_ids = set()
        self.undef = []
        self._unfolded = {}
        self._spec_bases = []
        self.unfolding = 0
        self._parsed = {}
        self._qsites = {}
        self._an = {}
        self._qbody = {}
        self.spec_prune = int(os.environ.get('PYVC_SPEC_PRUNE', '0'))
        self.fast_prune = os.environ.get('PYVC_FAST_PRUNE', '1') == '1'
        self.quants = {}
        self._fc_memo = {}
        self.bound_depth = 0
        self.typing = {}
        self.shard = None            # (index, count) when the paths of one function are split
        self.shard_depth = 4
        self.cur_is_async = False
        self.case_tag = ''
        from . import lib
        self.lib = lib
        from . import lib_rt  # noqa: registers run-time library contracts

    # -----------------------------------------------------------------------------------------
    # fresh symbols
    def name(self, hint):
        return '%s!%d' % (hint, next(self.counter))

    def fresh(self, ty, hint, st=None, inp=False):
        k = ty.kind
        if k == 'none':
            return VNONE
        if k == 'rec':
            # ty.args: ((key, Ty), ...)
            return V(REC, {kk: self.fresh(tt, hint + '.' + kk, st, inp) for kk, tt in ty.args})
        if k == 'tup':
            return V(TUP, tuple(self.fresh(tt, '%s.%d' % (hint, i), st, inp)
                                for i, tt in enumerate(ty.args)))
        if k == 'dict':
            ks, vs = sort_of(ty.args[0]), sort_of(ty.args[1])
            nm = self.name(hint)
            dom = z3.Const(nm + '$dom', z3.ArraySort(ks, z3.BoolSort()))
            mp = z3.Const(nm + '$map', z3.ArraySort(ks, vs))
            if inp:
                self.inputs[nm + '$dom'] = dom
                self.inputs[nm + '$map'] = mp
            v = V(ty, (dom, mp))
            if st is not None:
                st.pc.append(self.lib.card(dom) >= 0)
            return v
        nm = self.name(hint)
        c = z3.Const(nm, sort_of(ty))
        if inp:
            self.inputs[nm] = c
        if st is not None:
            if k in ('ref', 'opaque'):
                st.pc.append(c >= 1)
                if '$alloc' in st.ghost:
                    st.pc.append(c <= st.ghost['$alloc'].t)
            if k in ('bytes', 'bytearray'):
                pass
        return V(ty, c)

    # -----------------------------------------------------------------------------------------
    # path conditions
    def assume(self, st, cond, copy=True, precise=False):
        """Returns a state with cond added, or None if the path is infeasible."""
        if isinstance(cond, bool):
            cond = z3.BoolVal(cond)
        c = z3.simplify(cond)
        if z3.is_false(c):
            return None
        s2 = st.copy() if copy else st
        if z3.is_true(c):
            return s2
        # datatype testers on a value whose tag is already known on this path: no solver call
        neg = z3.is_not(c)
        a = c.arg(0) if neg else c
        if z3.is_app(a) and a.decl().kind() == z3.Z3_OP_DT_IS:
            tid = a.arg(0).get_id()
            tag = a.decl().params()[0].name() if a.decl().params() else str(a.decl())
            known = st.tags.get(tid)
            if known is not None:
                if (known[0] == tag) != neg:
                    return s2
                return None
            if not neg:
                s2.tags[tid] = (tag, a)      # the term is kept alive: AST ids are reused
        # literals already decided on this path: no solver call
        lits = []
        stack = [c]
        while stack:
            x = stack.pop()
            if z3.is_and(x):
                stack.extend(x.children())
            elif z3.is_not(x):
                lits.append((x.arg(0).get_id(), False, x))
            else:
                lits.append((x.get_id(), True, x))
        decided = True
        for k, val, _ in lits:
            known = st.tags.get(('L', k))
            if known is None:
                decided = False
            elif known[0] != val:
                return None
        if decided:
            return s2
        for k, val, x in lits:
            s2.tags[('L', k)] = (val, x)
        s2.pc.append(cond)      # the unsimplified term: z3's rewriter splits seq.nth otherwise
        if st.spec and self.spec_prune == 0 and not (
                z3.is_app(a) and a.decl().kind() == z3.Z3_OP_DT_IS):
            return s2       # spec mode: only type-tag tests are pruned with the solver
        t0 = time.time()
        sol = z3.Solver()
        sol.set('timeout', 100 if st.spec else self.prune_ms)
        if self.fast_prune and not precise:
            sol.add(*[self.abstract(p) for p in s2.pc])
        else:
            sol.add(*s2.pc)
        r = sol.check()
        self.stats['prune_calls'] += 1
        self.stats['prune_time'] += time.time() - t0
        if r == z3.unsat:
            return None
        return s2

    def abstract(self, t):
        """Propositional skeleton of a path condition for PRUNING ONLY: atoms that involve the
        string/sequence theory become opaque Boolean constants (a weaker formula: unsat of the
        abstraction implies unsat of the original)."""
        key = ('ab', t.get_id())
        hit = self._fc_memo.get(key)
        if hit is not None:
            return hit[0]
        if z3.is_and(t) or z3.is_or(t) or z3.is_not(t) or z3.is_implies(t) or \
                (z3.is_app(t) and t.decl().kind() in (z3.Z3_OP_ITE, z3.Z3_OP_IFF, z3.Z3_OP_EQ,
                                                      z3.Z3_OP_XOR) and
                 all(z3.is_bool(c) for c in t.children())):
            ch = [self.abstract(c) for c in t.children()]
            r = t.decl()(*ch)
        elif self.has_seq(t):
            r = z3.Bool('abs!%d' % t.get_id())
        else:
            r = t
        self._fc_memo[key] = (r, t)
        return r

    def add_all(self, st, conds):
        """Adds several conditions and checks feasibility once. Returns st or None."""
        for c in conds:
            cs = z3.simplify(c)
            if z3.is_false(cs):
                return None
            if not z3.is_true(cs):
                if self.has_quant(c):
                    st.qpc.append(c)
                else:
                    st.pc.append(c)
        if st.spec:
            return st
        t0 = time.time()
        sol = z3.Solver()
        sol.set('timeout', self.prune_ms)
        if self.fast_prune:
            sol.add(*[self.abstract(p) for p in st.pc])
        else:
            sol.add(*st.pc)
        r = sol.check()
        self.stats['prune_calls'] += 1
        self.stats['prune_time'] += time.time() - t0
        return None if r == z3.unsat else st

    def fact(self, st, ax):
        """A universally valid library-axiom instance (or a constraint on a fresh symbol)."""
        if st.spec or z3.is_quantifier(ax):
            # quantified axioms are kept out of the path condition (pruning queries stay cheap)
            k = ax.get_id()
            if k not in self._fact_ids:
                self._fact_ids.add(k)
                self.facts.append(ax)
        else:
            st.pc.append(ax)

    def skolemize(self, g, sk):
        if z3.is_and(g):
            return z3.And(*[self.skolemize(c, sk) for c in g.children()])
        if z3.is_implies(g):
            return z3.Implies(g.arg(0), self.skolemize(g.arg(1), sk))
        if z3.is_app_of(g, z3.Z3_OP_ITE) and z3.is_bool(g) and self.analyze(g)[2]:
            return z3.If(g.arg(0), self.skolemize(g.arg(1), sk), self.skolemize(g.arg(2), sk))
        q = self.quants.get(g.get_id())
        if q is not None and q[0].is_exists():
            t, consts, rng, body = q
            wl = [w for w in getattr(self, '_exists_wits', ())
                  if len(w) == len(consts) and all(a.sort() == c.sort()
                                                   for a, c in zip(w, consts))]
            if wl:
                # the contract names its witnesses: only those are tried
                alts = []
                for w in wl:
                    sub = list(zip(consts, w))
                    alts.append(z3.And(*([z3.substitute(r, *sub) for r in rng] +
                                         [z3.substitute(body, *sub)])))
                return z3.Or(*alts)
            if len(consts) == 1 and consts[0].sort() == z3.IntSort():
                alts = []
                for w in [z3.IntVal(n) for n in range(3)] + list(getattr(self, '_exists_cands',
                                                                        [])):
                    sub = (consts[0], w)
                    alts.append(z3.And(*([z3.substitute(r, sub) for r in rng] +
                                         [z3.substitute(body, sub)])))
                return z3.Or(*alts + [g])
            return g
        if q is not None:
            t, consts, rng, body = q
            subs = []
            for c in consts:
                k = z3.Const(self.name('sk_' + c.decl().name().split('!')[0]), c.sort())
                subs.append((c, k))
                sk.append(k)
            b = self.skolemize(z3.substitute(body, *subs), sk)
            if rng:
                return z3.Implies(z3.And(*[z3.substitute(r, *subs) for r in rng]), b)
            return b
        return g

    def quant_sites(self, p):
        """[(guards, quantifier record)] for the registered foralls occurring in p at top level,
        under And / Implies (memoised per premise)."""
        key = p.get_id()
        hit = self._qsites.get(key)
        if hit is not None:
            return hit[0]
        out = []

        def walk(x, guards):
            if z3.is_and(x):
                for c in x.children():
                    walk(c, guards)
            elif z3.is_implies(x):
                walk(x.arg(1), guards + (x.arg(0),))
            elif z3.is_app_of(x, z3.Z3_OP_ITE) and z3.is_bool(x):
                walk(x.arg(1), guards + (x.arg(0),))
                walk(x.arg(2), guards + (z3.Not(x.arg(0)),))
            else:
                q = self.quants.get(x.get_id())
                if q is not None and not q[0].is_exists() and len(q[1]) == 1:
                    out.append((guards, q))
        if self.analyze(p)[2]:
            walk(p, ())
        self._qsites[key] = (out, p)
        return out

    def instances(self, p, cands, out):
        """Instances of registered forall-premises (top level, under And / Implies)."""
        for guards, (t, consts, rng, body) in self.quant_sites(p):
            for c in cands:
                if c.sort() != consts[0].sort():
                    continue
                b = z3.substitute(body, (consts[0], c))
                r = [z3.substitute(x, (consts[0], c)) for x in rng]
                inst = z3.Implies(z3.And(*r), b) if r else b
                for g in reversed(guards):
                    inst = z3.Implies(g, inst)
                out.append(inst)

    def analyze(self, t):
        """One bottom-up pass per distinct subterm (global memo): the fresh constants it
        mentions, whether it involves strings/sequences/quantifiers, the ground index terms of
        seq.nth / select applications, and the nth-over-concat helper facts."""
        memo = self._an
        tid = t.get_id()
        hit = memo.get(tid)
        if hit is not None:
            return hit[1]
        stack = [(t, False)]
        EMPTY = (frozenset(), False, False, (), ())
        while stack:
            x, done = stack.pop()
            xid = x.get_id()
            if xid in memo:
                continue
            if z3.is_quantifier(x):
                if not done:
                    stack.append((x, True))
                    b = x.body()
                    if b.get_id() not in memo:
                        stack.append((b, False))
                    self._qbody[xid] = b
                    continue
                rb = memo[self._qbody[xid].get_id()][1]
                memo[xid] = (x, (rb[0], True, True, (), ()))
                continue
            if not z3.is_app(x):
                memo[xid] = (x, EMPTY)      # bound variable
                continue
            ch = x.children()
            if not done and ch:
                stack.append((x, True))
                for c in ch:
                    if c.get_id() not in memo:
                        stack.append((c, False))
                continue
            consts = set()
            hasseq = z3.is_seq(x) or z3.is_string(x)
            hasq = False
            idx = []
            ncf = []
            for c in ch:
                rc = memo[c.get_id()][1]
                consts |= rc[0]
                hasseq = hasseq or rc[1]
                hasq = hasq or rc[2]
                idx.extend(rc[3])
                ncf.extend(rc[4])
            k = x.decl().kind()
            if not ch:
                if k == z3.Z3_OP_UNINTERPRETED:
                    n = x.decl().name()
                    if '!' in n:
                        consts.add(n)
            elif k == z3.Z3_OP_SEQ_NTH and len(ch) == 2:
                if not memo[ch[1].get_id()][1][2]:
                    idx.append(ch[1])
                sq, ix = ch[0], ch[1]
                if z3.is_app(sq) and sq.decl().kind() == z3.Z3_OP_SEQ_EXTRACT and \
                        z3.is_int_value(sq.arg(1)) and sq.arg(1).as_long() >= 0 and \
                        not memo[ch[1].get_id()][1][2]:
                    # an element of a slice s[a:...] is the element a places further in s
                    base, a = sq.arg(0), sq.arg(1)
                    ncf.append((xid, (z3.Implies(z3.And(ix >= 0, ix < z3.Length(sq)),
                                                 x == base[a + ix]),)))
                if z3.is_app(sq) and sq.decl().kind() == z3.Z3_OP_SEQ_CONCAT and \
                        sq.num_args() == 2:
                    a, b = sq.arg(0), sq.arg(1)
                    la = z3.Length(a)
                    ncf.append((xid, (z3.Implies(z3.And(ix >= 0, ix < la), x == a[ix]),
                                      z3.Implies(z3.And(ix >= la, ix < la + z3.Length(b)),
                                                 x == b[ix - la]))))
            elif k == z3.Z3_OP_SEQ_NTH and False:
                pass
            elif k == z3.Z3_OP_SEQ_EXTRACT and len(ch) == 3 and z3.is_app(ch[0]) and \
                    ch[0].decl().kind() == z3.Z3_OP_SEQ_CONCAT and ch[0].num_args() == 2 and \
                    z3.is_int_value(ch[1]) and ch[1].as_long() == 0 and \
                    not memo[ch[2].get_id()][1][2]:
                # a prefix of a concatenation that lies within the first part (theory-valid)
                a, n = ch[0].arg(0), ch[2]
                ncf.append((xid, (z3.Implies(z3.And(n >= 0, n <= z3.Length(a)),
                                             x == z3.SubSeq(a, z3.IntVal(0), n)),)))
            elif k == z3.Z3_OP_SELECT and len(ch) == 2 and \
                    ch[1].sort() in (z3.IntSort(), z3.StringSort()):
                idx.append(ch[1])
            if len(idx) > 40:
                idx = idx[:40]
            memo[xid] = (x, (frozenset(consts), hasseq, hasq, tuple(idx), tuple(ncf)))
        return memo[tid][1]

    def has_seq(self, t):
        r = self.analyze(t)
        return r[1] or r[2]

    def has_quant(self, t):
        return self.analyze(t)[2]

    def fresh_consts(self, t):
        return self.analyze(t)[0]

    def nth_indices(self, t):
        return self.analyze(t)[3]

    def nth_concat_facts(self, t, out, seen):
        for i, fs in self.analyze(t)[4]:
            if i not in seen:
                seen.add(i)
                out.extend(fs)

    def fork(self, st, cond):
        """yield (state, bool) for the feasible sides of cond."""
        a = self.assume(st, cond)
        if a is not None:
            yield a, True
        b = self.assume(st, z3.Not(cond))
        if b is not None:
            yield b, False

    def oblige(self, st, kind, label, goal, props=None, line=0, note='', hints=(),
               witnesses=()):
        prem = list(st.pc) + list(st.qpc) + list(hints)
        # quantified goals are skolemised; sidecar `forall` premises are instantiated by hand at
        # the skolem constants and at the ground index terms of the path (no reliance on
        # E-matching over seq.nth, which neither back end does)
        sk = []
        self._exists_cands = []
        self._exists_wits = list(witnesses)
        seen0 = set()
        for t in prem:
            for ix in self.nth_indices(t):
                if ix.sort() == z3.IntSort() and ix.get_id() not in seen0 and \
                        len(self._exists_cands) < 8:
                    seen0.add(ix.get_id())
                    self._exists_cands.append(ix)
        goal = self.skolemize(goal, sk)
        # library-axiom instances: only those that speak about this path's symbols
        have = set()
        for t in prem + [goal]:
            have |= self.fresh_consts(t)
        nprem = len(prem)
        for f in self.facts:
            if self.fresh_consts(f) <= have:
                prem.append(f)
        nf0 = []
        nseen0 = set()
        for t in prem[:nprem] + [goal]:
            self.nth_concat_facts(t, nf0, nseen0)
        cands = list(sk)
        seen = set(c.get_id() for c in cands)
        for t in prem[:nprem] + [goal] + nf0:
            for ix in self.nth_indices(t):
                if ix.get_id() not in seen and len(cands) < 32:
                    seen.add(ix.get_id())
                    cands.append(ix)
        inst = []
        for pz in prem:
            self.instances(pz, cands, inst)
        prem += inst
        # theory-valid helper facts: seq.nth over a concatenation (neither solver splits these
        # cases on its own when arrays are indexed by the result)
        nf = []
        nseen = set()
        for t in prem + [goal]:
            self.nth_concat_facts(t, nf, nseen)
        prem += nf
        for kf in getattr(self, 'known', ()):
            if kf['function'] == self.cur_func and kf['kind'] == kind and kf['label'] == label:
                # known finding = excluded region: prove the obligation outside `when`, and
                # check separately that the finding still reproduces inside it
                if kf.get('scope') == 'local':     # `when` speaks about locals at the program point
                    w = self.spec_bool(kf['when'], st, dict(st.env))
                else:
                    w = self.spec_bool(kf['when'], self.cur_pre, self.cur_penv)
                # reproduction check: satisfiability of the region; quantified premises are left
                # out (the solvers return no model with them) - it only decides whether the
                # KNOWN-FINDING line is printed, the native witness is in known_findings.json
                rep = Obligation(self.cur_func, 'kf-repro', label, props,
                                 [p for p in prem if not self.analyze(p)[2]] + [w], goal, line,
                                 st.trace, kf['text'])
                rep.kf = kf
                rep.inputs = dict(self.inputs)
                self.obls.append(rep)
                prem = prem + [z3.Not(w)]
        o = Obligation(self.cur_func, kind, label, props, prem, goal, line, st.trace, note)
        o.inputs = dict(self.inputs)
        self.obls.append(o)
        return o

    def lemma_obligations(self, lem):
        self.cur_func = 'lemma:' + lem.name
        n0 = len(self.obls)
        st = State()
        st.ghost['$alloc'] = V(INT, z3.Int('alloc0'))
        if getattr(lem, 'builder', None) is not None:
            for label, prem, goal in lem.builder(self):
                st2 = st.copy()
                st2.pc = list(prem)
                self.oblige(st2, 'lemma', '%s:%s' % (lem.name, label), goal, props=lem.props,
                            note=lem.note)
            return self.obls[n0:]
        env = {'__parent__': None, '__mod__': 'spec'}
        for n, ty in lem.variables.items():
            env[n] = self.fresh(ty, n, st, inp=True)
        for p in lem.premises:
            st.pc.append(self.spec_bool(p, st, env))
        tree = ast.parse(lem.goal.strip(), mode='eval').body
        parts = tree.values if isinstance(tree, ast.BoolOp) and isinstance(tree.op, ast.And) \
            else [tree]
        cases = lem.cases or ['True']
        if lem.cases:
            # the case split must be exhaustive
            cs = [self.spec_bool(c, st, env, goal=True) for c in lem.cases]
            self.oblige(st, 'lemma', lem.name + '.cases-exhaustive', z3.Or(*cs),
                        props=lem.props)
        for ci, case in enumerate(cases):
            s2 = self.assume(st, self.spec_bool(case, st, env))
            if s2 is None:
                continue
            env2 = dict(env)
            for n, src in lem.lets.items():
                env2[n] = self.spec(src, s2, env2)
            hints = [self.spec_bool(h, s2, env2) for h in lem.hints]
            for i, part in enumerate(parts):
                g = self.spec_bool(part, s2, env2, goal=True)
                lab = lem.name + ('.case%d' % ci if lem.cases else '') + \
                    ('.%d' % i if len(parts) > 1 else '')
                self.oblige(s2, 'lemma', lab, g, props=lem.props, note=ast.unparse(part),
                            hints=hints)
        return self.obls[n0:]

    # -----------------------------------------------------------------------------------------
    # environments
    def lookup(self, st, name, modname):
        env = st.env
        while env is not None:
            if name in env:
                return env[name]
            env = env.get('__parent__')
        return None

    def setlocal(self, st, name, v):
        env = dict(st.env)
        env[name] = v
        st.env = env

    def modname(self, st):
        env = st.env
        while env is not None:
            if '__mod__' in env:
                return env['__mod__']
            env = env.get('__parent__')
        return None

    # -----------------------------------------------------------------------------------------
    # heap
    def hkey(self, cls, field):
        return (self.reg.root_of(cls), field)

    def heap_arr(self, st, key, sort):
        if key not in st.heap:
            nm = 'H_%s_%s' % key[:2] + ('_' + key[2] if len(key) > 2 else '')
            arr = z3.Const(nm, z3.ArraySort(z3.IntSort(), sort))
            st.heap[key] = arr
            self.inputs[nm] = arr
        return st.heap[key]

    def heap_load(self, st, ref, field):
        cls = ref.ty.args[0]
        fty = self.reg.field_ty(cls, field)
        if fty is None:
            raise EngineError('class %s has no declared field %r' % (cls, field))
        return self._load(st, (self.reg.root_of(cls), field), ref.t, fty)

    def _load(self, st, key, r, fty):
        k = fty.kind
        if k == 'recf':
            return V(REC, {kk: self._load(st, (key[0], key[1] + '.' + kk), r, tt)
                           for kk, tt in fty.args})
        if k == 'dict':
            ks, vs = sort_of(fty.args[0]), sort_of(fty.args[1])
            dom = z3.Select(self.heap_arr(st, key + ('dom',), z3.ArraySort(ks, z3.BoolSort())), r)
            mp = z3.Select(self.heap_arr(st, key + ('map',), z3.ArraySort(ks, vs)), r)
            return V(fty, (dom, mp))
        if k == 'none':
            return VNONE
        t = z3.Select(self.heap_arr(st, key, sort_of(fty)), r)
        v = V(fty, t)
        self.wf_ref(st, v)
        return v

    def wf_ref(self, st, v):
        """Heap well-formedness (assumed): a reference read from the heap denotes an object that
        has been allocated (or None for optional references)."""
        if v.ty.kind == 'ref' and '$alloc' in st.ghost:
            lo = 0 if is_opt(v.ty) else 1
            self.fact(st, z3.And(v.t >= lo, v.t <= st.ghost['$alloc'].t))

    def heap_store(self, st, ref, field, v):
        cls = ref.ty.args[0]
        fty = self.reg.field_ty(cls, field)
        if fty is None:
            raise EngineError('contract drift: class %s has no declared field %r '
                              '(assigned in the code)' % (cls, field))
        self._store(st, (self.reg.root_of(cls), field), ref.t, fty, v)

    def _store(self, st, key, r, fty, v):
        k = fty.kind
        if k == 'recf':
            if v.ty.kind != 'rec':
                raise EngineError('record field assigned a non-record')
            for kk, tt in fty.args:
                self._store(st, (key[0], key[1] + '.' + kk), r, tt, v.t[kk])
            return
        if k == 'dict':
            v = self.coerce(v, fty)
            ks, vs = sort_of(fty.args[0]), sort_of(fty.args[1])
            kd, km = key + ('dom',), key + ('map',)
            st.heap[kd] = z3.Store(self.heap_arr(st, kd, z3.ArraySort(ks, z3.BoolSort())), r, v.t[0])
            st.heap[km] = z3.Store(self.heap_arr(st, km, z3.ArraySort(ks, vs)), r, v.t[1])
            self._wrote(st, kd)
            self._wrote(st, km)
            return
        v = self.coerce(v, fty)
        t = box(v) if fty.kind == 'any' else v.t
        st.heap[key] = z3.Store(self.heap_arr(st, key, sort_of(fty)), r, t)
        self._wrote(st, key)

    def _wrote(self, st, key):
        st.writes.add(key)
        if st.loopw is not None:
            st.loopw.add(key)

    def coerce(self, v, ty):
        """Adapt v to static type ty where Python allows it without a run-time test."""
        if v.ty == ty:
            return v
        r = self._coerce(v, ty)
        if getattr(v, 'origin', None) is not None and r is not v and isinstance(r, V):
            r = V(r.ty, r.t, origin=v.origin)
        return r

    def _coerce(self, v, ty):
        if v.ty.kind == 'none' and is_opt(ty):
            return V(ty, z3.IntVal(0))          # None into an optional reference
        k = ty.kind
        if k == 'tup' and v.ty.kind == 'tup' and len(ty.args) == len(v.t):
            return V(ty, tuple(self.coerce(x, t) for x, t in zip(v.t, ty.args)))
        if k == 'rec' and v.ty.kind == 'rec' and ty.args:
            want = dict(ty.args)
            if set(want) != set(v.t):
                raise EngineError('record shape mismatch: %r vs %r' % (sorted(v.t), sorted(want)))
            return V(REC, {kk: self.coerce(v.t[kk], want[kk]) for kk in v.t})
        if k == 'dict' and v.ty.kind == 'dict':
            return V(ty, v.t)
        if k == 'any' and v.ty.kind == 'rec':
            return V(ANY, self.json_object(v))
        if k == 'any':
            return V(ANY, box(self.concrete_list(v, STR))) if v.ty.kind == 'list' and \
                v.ty.args[0].kind == 'bot' else V(ANY, box(v))
        if k == 'real' and v.ty.kind in ('int', 'bool'):
            return V(REAL, z3.ToReal(v.t if v.ty.kind == 'int' else z3.If(v.t, 1, 0)))
        if k == 'int' and v.ty.kind == 'bool':
            return V(INT, z3.If(v.t, 1, 0))
        if k == 'list' and v.ty.kind == 'list':
            if v.ty.args[0].kind == 'bot':
                return V(ty, z3.Empty(sort_of(ty)))
            if ty.args[0].kind == 'any':
                raise EngineError('list element coercion to any not supported')
            if ty.args[0].kind in ('ref', 'opaque') and v.ty.args[0].kind in ('ref', 'opaque'):
                return V(ty, v.t)
        if k == 'dict' and v.ty.kind == 'rec' and len(v.t) == 0:
            ks, vs = sort_of(ty.args[0]), sort_of(ty.args[1])
            dom = z3.K(ks, z3.BoolVal(False))
            ax = self.lib.card(dom) == 0
            if ax.get_id() not in self._fact_ids:
                self._fact_ids.add(ax.get_id())
                self.facts.append(ax)
            return V(ty, (dom, z3.K(ks, self.default_term(vs))))
        if k == 'dict' and v.ty.kind == 'dict':
            return V(ty, v.t)
        if k in ('ref', 'opaque') and v.ty.kind in ('ref', 'opaque'):
            return V(ty, v.t)
        if v.ty.kind == 'any':
            return unbox(v.t, ty)
        if k == 'bytes' and v.ty.kind == 'bytearray':
            return V(ty, v.t)
        raise EngineError('cannot coerce %r to %r' % (v.ty, ty))

    def json_object(self, v):
        """A dict literal built by the code, as an abstract JSON object: a function of its member
        values (so the same literal in a spec denotes the same object), with its members recorded
        as facts."""
        import zlib
        keys = sorted(v.t)
        vals = []
        for kk in keys:
            x = v.t[kk]
            if x.ty.kind == 'rec':
                vals.append(self.json_object(x))
            elif x.ty.kind == 'none':
                vals.append(PV.pnone)
            elif x.ty.kind == 'list' and x.ty.args[0].kind == 'bot':
                vals.append(PV.pls(z3.Empty(z3.SeqSort(z3.StringSort()))))
            else:
                vals.append(box(x))
        f = z3.Function('jrec_%d' % (zlib.crc32('|'.join(keys).encode()) % 1000000),
                        *([PV] * len(keys) + [JV]))
        jv = f(*vals) if keys else z3.Const('jrec_empty', JV)
        st = State()
        st.spec = True
        self.fact(st, j_isdict(jv))
        for kk, val in zip(keys, vals):
            self.fact(st, self.lib.j_haskey(jv, z3.StringVal(kk)))
            self.fact(st, self.lib.j_get(jv, z3.StringVal(kk)) == val)
        return PV.pj(jv)

    def default_term(self, sort):
        return z3.Const('dflt_' + str(sort).replace(' ', '_').replace('(', '').replace(')', ''),
                        sort)

    def concrete_list(self, v, elemty):
        if v.ty.kind == 'list' and v.ty.args[0].kind == 'bot':
            return V(List(elemty), z3.Empty(z3.SeqSort(sort_of(elemty))))
        return v

    # -----------------------------------------------------------------------------------------
    # spec evaluation (pure, merged)
    def spec(self, src, st, env=None, result=None, pre=None, modname='spec'):
        if isinstance(src, ast.AST):
            tree = src
        else:
            tree = self._parsed.get(src)
            if tree is None:
                tree = self._parsed[src] = ast.parse(src.strip(), mode='eval').body
        s2 = st.copy()
        s2.spec = True
        if pre is not None:
            s2.pre = pre
        e = dict(env if env is not None else {})
        e.setdefault('__parent__', None)
        e.setdefault('__mod__', modname)
        if result is not None:
            e['result'] = result
        s2.env = e
        base = len(s2.pc)
        # definedness conditions are taken relative to the outermost spec evaluation, so that
        # the guards established by enclosing `and` / `implies` are part of them
        ubase = self._spec_bases[0] if self._spec_bases else base
        self._spec_bases.append(base)
        alts = []
        try:
            for s3, v in self.ev(tree, s2):
                cond = z3.And(*s3.pc[base:]) if len(s3.pc) > base else z3.BoolVal(True)
                if isinstance(v, Raise):
                    # the expression is undefined here (a partial operation failed)
                    self.undef.append(z3.And(*s3.pc[ubase:]) if len(s3.pc) > ubase
                                      else z3.BoolVal(True))
                    continue
                alts.append((cond, v))
        finally:
            self._spec_bases.pop()
        if not alts:
            # undefined on every path that could not be pruned: the definedness condition
            # recorded above makes a goal fail and an assumption vacuous
            return vbool(False)
        out = alts[-1][1]
        for c, v in reversed(alts[:-1]):
            out = same_sort_merge(c, v, out)
        return out

    def spec_bool(self, src, st, env=None, result=None, pre=None, goal=False, neg=False):
        """Boolean spec expression. Definedness: in goal position the expression must be
        defined; in assumption position an undefined expression contributes nothing."""
        saved = self.undef
        self.undef = []
        try:
            v = self.spec(src, st, env, result, pre)
            und = self.undef
        finally:
            self.undef = saved
        t = truth(v)
        if neg:
            t = z3.Not(t)
        if not und:
            return t
        d = z3.Not(z3.Or(*und))
        return z3.And(d, t) if goal else z3.Implies(d, t)

    # -----------------------------------------------------------------------------------------
    # expressions
    def ev(self, e, st):
        """Generator of (state, V | Raise)."""
        m = getattr(self, 'ev_' + type(e).__name__, None)
        if m is None:
            raise EngineError('unsupported expression %s at line %d'
                              % (type(e).__name__, getattr(e, 'lineno', 0)))
        return m(e, st)

    def ev_list(self, exprs, st):
        """yield (state, [V...]) or (state, Raise)"""
        if not exprs:
            yield st, []
            return
        for s1, v in self.ev(exprs[0], st):
            if isinstance(v, Raise):
                yield s1, v
                continue
            for s2, rest in self.ev_list(exprs[1:], s1):
                if isinstance(rest, Raise):
                    yield s2, rest
                else:
                    yield s2, [v] + rest

    def ev_Constant(self, e, st):
        yield st, const_to_v(e.value)

    def ev_Name(self, e, st):
        v = self.lookup(st, e.id, None)
        if v is not None:
            yield st, v
            return
        if e.id in st.ghost:
            yield st, st.ghost[e.id]
            return
        modname = self.modname(st)
        v = self.module_attr(st, modname, e.id) if modname else None
        if v is None:
            v = self.lib.builtin(self, e.id)
        if v is None and modname != 'spec':
            v = self.module_attr(st, 'spec', e.id) if st.spec else None
        if v is None:
            raise EngineError('unbound name %r at line %d' % (e.id, e.lineno))
        yield st, v

    def module_attr(self, st, modname, name):
        mod = self.src.module(modname)
        if name in mod.consts and mod.consts[name] == [] and modname == 'base_client':
            return V(Opaque('ClientList'), z3.IntVal(-8))    # module-level registry list
        if name in mod.consts and isinstance(mod.consts[name], (set, frozenset)):
            return V(Opaque('Set'), z3.IntVal(-7))           # a module-level set object
        if name in mod.consts:
            return self.shared_const(mod.consts[name], '%s.%s' % (modname, name))
        if name in mod.funcs:
            return V(FN, ('repo', modname, name, None))
        if name in mod.classes:
            return V(FN, ('class', modname, name))
        if name in mod.imports:
            imp = mod.imports[name]
            if imp[0] == 'repo':
                return V(MOD, ('repo', imp[1]))
            if imp[0] == 'repoattr':
                return self.module_attr(st, imp[1], imp[2])
            if imp[1] in self.lib.LIB:
                return self.lib.fnv(imp[1])
            return V(MOD, ('lib', imp[1]))
        if name in mod.exprs:
            e = mod.exprs[name]
            if isinstance(e, ast.Call) and isinstance(e.func, ast.Name) and e.func.id == 'set' \
                    and not e.args:
                return V(Opaque('Set'), z3.IntVal(-7))       # a module-level set object
            if isinstance(e, ast.Tuple) and all(isinstance(x, ast.Name) for x in e.elts):
                items = [self.lib.builtin(self, x.id) or self.module_attr(st, modname, x.id)
                         for x in e.elts]
                if all(i is not None for i in items):
                    return V(TUP, tuple(items))
        for star in mod.star:
            try:
                return self.lib.lib_attr(self, star, name)
            except EngineError:
                pass
        return None

    def ev_Attribute(self, e, st):
        if isinstance(e.value, ast.Call) and isinstance(e.value.func, ast.Name) and \
                e.value.func.id == 'super' and not e.value.args:
            # super().m: the method of the base class of the class that defines the function
            # under verification (only supported at the top level of that function)
            parts = (self.cur_func or '').split('.')
            sch = next((self.reg.schemas[p] for p in parts if p in self.reg.schemas), None)
            me = self.lookup(st, 'self', None)
            if sch is None or not sch.base or me is None:
                raise EngineError('super() outside a method of a schema class (line %d)'
                                  % e.lineno)
            v = self.class_attr(st, sch.base, e.attr, me)
            if v is None:
                raise EngineError('super().%s not found (line %d)' % (e.attr, e.lineno))
            yield st, v
            return
        for s1, o in self.ev(e.value, st):
            if isinstance(o, Raise):
                yield s1, o
                continue
            yield from self.getattr(s1, o, e.attr, e.lineno)

    def getattr(self, st, o, attr, line=0):
        k = o.ty.kind
        if k == 'mod':
            if o.t[0] == 'repo':
                v = self.module_attr(st, o.t[1], attr)
                if v is None:
                    raise EngineError('module %s has no attribute %s' % (o.t[1], attr))
                yield st, v
            elif o.t[0] == 'ns':      # class namespace of constants (e.g. server.reason)
                yield st, const_to_v(o.t[1][attr])
            else:
                yield st, self.lib.lib_attr(self, o.t[1], attr)
            return
        if k in ('ref', 'opaque') and is_opt(o.ty):
            for s2, null in self.fork(st, o.t == 0):
                if null:
                    yield s2, Raise('AttributeError', (), line)
                else:
                    nn = Ref(o.ty.args[0]) if k == 'ref' else Opaque(o.ty.args[0])
                    yield from self.getattr(s2, V(nn, o.t), attr, line)
            return
        if k == 'ref':
            cls = o.ty.args[0]
            if self.reg.field_ty(cls, attr) is not None:
                yield st, self.heap_load(st, o, attr)
                return
            v = self.class_attr(st, cls, attr, o)
            if v is None:
                raise EngineError('class %s: unknown attribute %r (line %d)' % (cls, attr, line))
            yield st, v
            return
        if k == 'fn' and o.t[0] == 'class':
            v = self.class_attr(st, o.t[2], attr, None, o.t[1])
            if v is None:
                raise EngineError('class %s: unknown attribute %r' % (o.t[2], attr))
            yield st, v
            return
        if k == 'any':
            if st.spec:
                yield st, V(FN, ('libm', 'any.' + attr, o))
                return
            for s2, u in self.split_any(st, o):
                if u.ty.kind == 'any':
                    raise EngineError('attribute %s of unresolved any' % attr)
                yield from self.getattr(s2, u, attr, line)
            return
        if k == 'none':
            yield st, Raise('AttributeError', (), line)
            return
        if k == 'rec' and attr in o.t and self.lib.method(self, o, attr) is None:
            yield st, o.t[attr]         # named-tuple style record (urlparse result)
            return
        if k == 'exc':
            fn = self.lib.LIBM.get(('exc', attr))
            if fn is None:
                raise EngineError('exception attribute %s at line %d' % (attr, line))
            yield st, V(FN, ('libm', 'exc.' + attr, o, fn))
            return
        if k == 'opaque' and (o.ty.args[0], attr) in self.lib.OPAQUE_ATTR:
            yield st, self.lib.OPAQUE_ATTR[(o.ty.args[0], attr)](self, st, o)
            return
        m = self.lib.method(self, o, attr)
        if m is None:
            if k == 'opaque' and not st.spec and o.ty.args[0] not in ('object', 'DriverAttr'):
                # a library object whose method has no contract: out of the subset (treating it
                # as an AttributeError would silently cut off the paths behind the call)
                raise EngineError('no library contract for %s.%s (line %d)'
                                  % (o.ty.args[0], attr, line))
            yield st, Raise('AttributeError', (), line)
            return
        yield st, m

    @staticmethod
    def shared_const(c, where):
        """A module- or class-level constant; mutable ones (list, dict) carry their origin: the
        one object is shared by every use, so mutating it in place is a write outside any
        function's frame."""
        def tag(v, c, path):
            # the object itself and every mutable object nested in it are shared
            if isinstance(c, dict) and v.ty.kind == 'rec':
                return V(v.ty, {k: tag(v.t[k], c[k], '%s[%r]' % (path, k)) for k in v.t},
                         origin=path)
            if isinstance(c, (list, dict)):
                return V(v.ty, v.t, origin=path)
            return v
        return tag(const_to_v(c), c, where)

    def class_attr(self, st, cls, attr, recv, module=None):
        """Method or class constant, searching base classes in the real sources."""
        sch = self.reg.schemas.get(cls)
        while sch is not None:
            if sch.module is not None:
                mod = self.src.module(sch.module)
                ci = mod.classes.get(sch.name)
                if ci is not None:
                    if attr in ci.methods:
                        return V(FN, ('repo', sch.module, sch.name + '.' + attr, recv))
                    if attr in ci.consts:
                        return self.shared_const(ci.consts[attr], '%s.%s' % (sch.name, attr))
                    if attr in ci.classes:
                        return V(MOD, ('ns', ci.classes[attr].consts))
                    if attr in ci.aliases:
                        return self.module_attr(st, sch.module, ci.aliases[attr])
            lm = self.lib.class_method(self, sch.name, attr, recv)
            if lm is not None:
                return lm
            sch = self.reg.schemas.get(sch.base) if sch.base else None
        if module is not None:
            ci = self.src.module(module).classes.get(cls)
            if ci is not None:
                if attr in ci.consts:
                    return self.shared_const(ci.consts[attr], '%s.%s' % (cls, attr))
                if attr in ci.methods:
                    return V(FN, ('repo', module, cls + '.' + attr, recv))
        return None

    def narrow(self, st, v):
        """If the path condition forces the tag of an ANY value, return it unboxed."""
        if v.ty.kind != 'any':
            return v
        feas = []
        for nm, rec, acc, ty in TAGS:
            if self.assume(st, rec(v.t)) is not None:
                feas.append((acc, ty))
                if len(feas) > 1:
                    return v
        if len(feas) == 1:
            acc, ty = feas[0]
            return VNONE if acc is None else V(ty, acc(v.t))
        return v

    def split_any(self, st, v, only=None):
        """Fork an ANY value over its feasible tags, yielding unboxed values."""
        if v.ty.kind != 'any':
            yield st, v
            return
        for nm, rec, acc, ty in TAGS:
            if only is not None and nm not in only:
                continue
            s2 = self.assume(st, rec(v.t))
            if s2 is None:
                continue
            yield s2, (VNONE if acc is None else V(ty, z3.simplify(acc(v.t))))

    _KW_USE = {}
    KW_IGNORED_OK = ('Logger.',)       # logging calls: keyword arguments change the log record only

    def kwargs_guard(self, fn, name, kwargs, line):
        """A library contract that never looks at its keyword arguments cannot honour them: a
        call that passes some is outside the modelled subset (not silently the default
        behaviour)."""
        if not kwargs or any(name.startswith(p) for p in self.KW_IGNORED_OK):
            return
        key = id(fn)
        uses = self._KW_USE.get(key)
        if uses is None:
            import dis
            try:
                todo, uses = [fn], False
                seen = set()
                while todo and not uses:
                    f = todo.pop()
                    code = getattr(f, '__code__', None)
                    if code is None or id(code) in seen:
                        continue
                    seen.add(id(code))
                    uses = any(i.argval == 'kwargs' and i.opname.startswith('LOAD')
                               for i in dis.get_instructions(code))
                    # wrappers built by decorators / lambdas: look at the functions they close over
                    for c in (getattr(f, '__closure__', None) or ()):
                        try:
                            if callable(c.cell_contents):
                                todo.append(c.cell_contents)
                        except ValueError:
                            pass
            except Exception:
                uses = True
            self._KW_USE[key] = (uses, fn)
        else:
            uses = uses[0]
        if not uses:
            raise EngineError('library contract %s does not model keyword arguments %s (line %d)'
                              % (name, sorted(kwargs), line))

    def ev_Await(self, e, st):
        for s1, v in self.ev(e.value, st):
            if isinstance(v, Raise):
                yield s1, v
            elif v.ty.kind == 'fn' and v.t[0] == 'coro':
                yield from self.run_coro(s1, v, e.lineno)
            elif v.ty.kind == 'fn' and v.t[0] == 'corolib':
                yield from v.t[1](self, s1, None, e.lineno)
            elif v.ty.kind == 'opaque' and v.ty.args[0] == 'Task' and is_opt(v.ty) and \
                    not s1.spec:
                # awaiting an optional task (a field such as read_loop_task): None is not
                # awaitable. (Library calls are modelled as returning the awaited value, so only
                # task-typed values are treated as awaitables here.)
                for s2, null in self.fork(s1, v.t == 0):
                    if null:
                        yield s2, Raise('TypeError', (), e.lineno)
                    else:
                        yield from self.lib.await_value(self, s2, V(Opaque('Task'), v.t),
                                                        e.lineno)
            else:
                yield s1, v

    def run_coro(self, st, v, line):
        _, desc, args, kwargs = v.t
        yield from self.call(st, V(FN, desc), args, kwargs, line, awaited=True)

    def ev_IfExp(self, e, st):
        for s1, c in self.ev(e.test, st):
            if isinstance(c, Raise):
                yield s1, c
                continue
            for s2, side in self.fork(s1, truth(c)):
                yield from self.ev(e.body if side else e.orelse, s2)

    def ev_BoolOp(self, e, st):
        yield from self._boolop(e.op, e.values, st)

    def _boolop(self, op, values, st):
        for s1, v in self.ev(values[0], st):
            if isinstance(v, Raise) or len(values) == 1:
                yield s1, v
                continue
            for s2, side in self.fork(s1, truth(v)):
                if isinstance(op, ast.And) == side:
                    saved = s2.env
                    self.refine(s2, values[0], side)
                    if s2.env is not saved:
                        for s3, r in self._boolop(op, values[1:], s2):
                            s3.env = saved
                            yield s3, r
                        continue
                    yield from self._boolop(op, values[1:], s2)
                else:
                    yield s2, v

    def ev_UnaryOp(self, e, st):
        for s1, v in self.ev(e.operand, st):
            if isinstance(v, Raise):
                yield s1, v
            elif isinstance(e.op, ast.Not):
                yield s1, vbool(z3.Not(truth(v)))
            elif isinstance(e.op, ast.USub) and v.ty.kind in ('int', 'real'):
                yield s1, V(v.ty, -v.t)
            else:
                raise EngineError('unsupported unary op at line %d' % e.lineno)

    def ev_BinOp(self, e, st):
        for s1, vs in self.ev_list([e.left, e.right], st):
            if isinstance(vs, Raise):
                yield s1, vs
            else:
                yield from self.lib.binop(self, s1, e.op, vs[0], vs[1], e.lineno)

    def ev_Compare(self, e, st):
        yield from self._compare(e.left, list(zip(e.ops, e.comparators)), st, None, e.lineno)

    def _compare(self, left, rest, st, leftv, line):
        def go(s1, a):
            op, right = rest[0]
            for s2, b in self.ev(right, s1):
                if isinstance(b, Raise):
                    yield s2, b
                    continue
                for s3, r in self.lib.compare(self, s2, op, a, b, line):
                    if isinstance(r, Raise) or len(rest) == 1:
                        yield s3, r
                        continue
                    for s4, side in self.fork(s3, truth(r)):
                        if side:
                            yield from self._compare(None, rest[1:], s4, b, line)
                        else:
                            yield s4, vbool(False)
        if leftv is not None:
            yield from go(st, leftv)
            return
        for s1, a in self.ev(left, st):
            if isinstance(a, Raise):
                yield s1, a
            else:
                yield from go(s1, a)

    def ev_Subscript(self, e, st):
        for s1, o in self.ev(e.value, st):
            if isinstance(o, Raise):
                yield s1, o
                continue
            if isinstance(e.slice, ast.Slice):
                parts = [e.slice.lower, e.slice.upper]
                if e.slice.step is not None:
                    raise EngineError('slice step unsupported')
                idx = [p for p in parts if p is not None]
                for s2, vs in self.ev_list(idx, s1):
                    if isinstance(vs, Raise):
                        yield s2, vs
                        continue
                    it = iter(vs)
                    lo = next(it) if parts[0] is not None else None
                    hi = next(it) if parts[1] is not None else None
                    yield from self.lib.slice(self, s2, o, lo, hi, e.lineno)
            else:
                for s2, i in self.ev(e.slice, s1):
                    if isinstance(i, Raise):
                        yield s2, i
                    else:
                        yield from self.lib.index(self, s2, o, i, e.lineno)

    def ev_List(self, e, st):
        for s1, vs in self.ev_list(e.elts, st):
            if isinstance(vs, Raise):
                yield s1, vs
            else:
                yield s1, self.lib.mklist(self, vs, s1)

    def ev_Tuple(self, e, st):
        for s1, vs in self.ev_list(e.elts, st):
            if isinstance(vs, Raise):
                yield s1, vs
            else:
                yield s1, V(TUP, tuple(vs))

    def ev_Dict(self, e, st):
        keys = []
        for k in e.keys:
            if not (isinstance(k, ast.Constant) and isinstance(k.value, str)):
                raise EngineError('dict literal with non-constant key at line %d' % e.lineno)
            keys.append(k.value)
        for s1, vs in self.ev_list(e.values, st):
            if isinstance(vs, Raise):
                yield s1, vs
            else:
                yield s1, V(REC, dict(zip(keys, vs)))

    def ev_JoinedStr(self, e, st):
        parts = []
        for p in e.values:
            if isinstance(p, ast.Constant):
                parts.append(p)
            else:
                if p.conversion != -1 or p.format_spec is not None:
                    raise EngineError('f-string conversion unsupported')
                parts.append(p.value)
        for s1, vs in self.ev_list(parts, st):
            if isinstance(vs, Raise):
                yield s1, vs
                continue
            out = z3.StringVal('')
            for v in vs:
                out = z3.Concat(out, self.lib.to_str(self, v))
            yield s1, vstr(z3.simplify(out))

    def ev_ListComp(self, e, st):
        yield from self.lib.listcomp(self, st, e)

    def ev_Lambda(self, e, st):
        yield st, V(FN, ('lambda', e, st.env))

    def ev_Starred(self, e, st):
        raise EngineError('starred expression at line %d' % e.lineno)

    def ev_Call(self, e, st, awaited=False):
        # spec-only forms
        if isinstance(e.func, ast.Name):
            sp = self.lib.SPECIAL.get(e.func.id)
            if sp is not None and self.lookup(st, e.func.id, None) is None:
                yield from sp(self, st, e)
                return
        for s1, f in self.ev(e.func, st):
            if isinstance(f, Raise):
                yield s1, f
                continue
            pos = []
            star = None
            for a in e.args:
                if isinstance(a, ast.Starred):
                    star = a.value
                else:
                    pos.append(a)
            kwn = [k.arg for k in e.keywords]
            for s2, vs in self.ev_list(pos + [k.value for k in e.keywords] +
                                       ([star] if star is not None else []), s1):
                if isinstance(vs, Raise):
                    yield s2, vs
                    continue
                args = vs[:len(pos)]
                kwargs = {}
                for kn, kv in zip(kwn, vs[len(pos):len(pos) + len(kwn)]):
                    if kn is None:
                        if kv.ty.kind != 'rec':
                            raise EngineError('**kwargs of non-record at line %d' % e.lineno)
                        kwargs.update(kv.t)
                    else:
                        kwargs[kn] = kv
                if star is not None:
                    sv = vs[-1]
                    if sv.ty.kind != 'tup':
                        raise EngineError('*args of non-tuple at line %d' % e.lineno)
                    args = args + list(sv.t)
                yield from self.call(s2, f, args, kwargs, e.lineno)

    # -----------------------------------------------------------------------------------------
    # calls
    def call(self, st, f, args, kwargs, line, awaited=False):
        if f.ty.kind == 'any':
            for s2, u in self.split_any(st, f):
                if u.ty.kind == 'opaque':
                    yield from self.lib.call_opaque(self, s2, u, args, kwargs, line)
                else:
                    yield s2, Raise('TypeError', (), line)
            return
        if f.ty.kind == 'opaque' and is_opt(f.ty):
            for s2, null in self.fork(st, f.t == 0):
                if null:
                    yield s2, Raise('TypeError', (), line)
                else:
                    yield from self.lib.call_opaque(self, s2, V(Opaque(f.ty.args[0]), f.t), args,
                                                    kwargs, line)
            return
        if f.ty.kind == 'opaque':
            yield from self.lib.call_opaque(self, st, f, args, kwargs, line)
            return
        if f.ty.kind != 'fn':
            yield st, Raise('TypeError', (), line)
            return
        d = f.t
        kind = d[0]
        if kind == 'lib':
            self.libuse.add(d[1])
            self.kwargs_guard(d[2], d[1], kwargs, line)
            yield from d[2](self, st, args, kwargs, line)
        elif kind == 'libm' and len(d) == 3:
            # spec mode, method of a dynamically typed value: defined when it is a str
            o, attr = d[2], d[1][4:]
            for s2, isstr in self.fork(st, PV.is_ps(o.t)):
                if isstr:
                    m = self.lib.method(self, unbox(o.t, STR), attr)
                    if m is None:
                        raise EngineError('no str method %s (line %d)' % (attr, line))
                    yield from self.call(s2, m, args, kwargs, line)
                else:
                    yield s2, Raise('AttributeError', (), line)
        elif kind == 'libm':
            self.libuse.add(d[1])
            self.kwargs_guard(d[3], d[1], kwargs, line)
            yield from d[3](self, st, d[2], args, kwargs, line)
        elif kind == 'repo':
            yield from self.call_repo(st, d[1], d[2], d[3], args, kwargs, line, awaited)
        elif kind == 'class':
            yield from self.construct(st, d[1], d[2], args, kwargs, line)
        elif kind == 'closure':
            yield from self.call_closure(st, d, args, kwargs, line, awaited)
        elif kind == 'lambda':
            node, cenv = d[1], d[2]
            env = {'__parent__': cenv}
            for a, v in zip(node.args.args, args):
                env[a.arg] = v
            s2 = st.copy()
            saved = s2.env
            s2.env = env
            for s3, v in self.ev(node.body, s2):
                s3.env = saved
                yield s3, v
        elif kind == 'excclass':
            yield st, V(EXC, Raise(d[1], args, line))
        else:
            raise EngineError('cannot call %r' % (d,))

    def bind(self, node, args, kwargs, recv, st, modname):
        """Bind actuals to the real signature; defaults come from the real source."""
        a = node.args
        names = [x.arg for x in a.args]
        env = {}
        actual = ([recv] if recv is not None else []) + list(args)
        if len(actual) > len(names) and a.vararg is None:
            raise EngineError('too many arguments for %s' % node.name)
        for n, v in zip(names, actual):
            env[n] = v
        if a.vararg is not None:
            env[a.vararg.arg] = V(TUP, tuple(actual[len(names):]))
        extra_kw = {}
        for k, v in kwargs.items():
            if k in names or k in [x.arg for x in a.kwonlyargs]:
                env[k] = v
            elif a.kwarg is not None:
                extra_kw[k] = v
            else:
                raise EngineError('unexpected keyword %s for %s' % (k, node.name))
        if a.kwarg is not None:
            env[a.kwarg.arg] = V(REC, extra_kw)
        defaults = a.defaults
        for n, d in zip(names[len(names) - len(defaults):], defaults):
            if n not in env:
                env[n] = self.const_default(d, st, modname)
        for x, d in zip(a.kwonlyargs, a.kw_defaults):
            if x.arg not in env and d is not None:
                env[x.arg] = self.const_default(d, st, modname)
        for n in names:
            if n not in env:
                raise EngineError('missing argument %s for %s' % (n, node.name))
        return env

    def const_default(self, d, st, modname):
        if isinstance(d, ast.Constant):
            return const_to_v(d.value)
        if isinstance(d, ast.Name):
            v = self.module_attr(st, modname, d.id)
            if v is not None:
                return v
        raise EngineError('non-constant default')

    def find_method(self, modname, qual):
        """Resolve module.Class.meth through base classes; returns (defining module, Class.meth,
        node)."""
        if '.' not in qual:
            return modname, qual, self.src.module(modname).funcs[qual]
        cls, meth = qual.split('.', 1)
        sch = self.reg.schemas.get(cls)
        while sch is not None:
            if sch.module is not None:
                ci = self.src.module(sch.module).classes.get(sch.name)
                if ci is not None and meth in ci.methods:
                    return sch.module, sch.name + '.' + meth, ci.methods[meth]
            sch = self.reg.schemas.get(sch.base) if sch.base else None
        ci = self.src.module(modname).classes.get(cls)
        if ci is not None and meth in ci.methods:
            return modname, qual, ci.methods[meth]
        raise EngineError('method %s.%s not found' % (modname, qual))

    def call_repo(self, st, modname, qual, recv, args, kwargs, line, awaited=False):
        dmod, dqual, node = self.find_method(modname, qual)
        full = dmod + '.' + dqual
        if isinstance(node, ast.AsyncFunctionDef) and not awaited and not st.spec:
            yield st, V(FN, ('coro', ('repo', modname, qual, recv), args, kwargs))
            return
        if dmod == 'spec':
            rec = self.recursive_decl(node)
            if rec is not None:
                yield st, self.call_recursive(st, node, rec, args, kwargs, line)
                return
            yield from self.inline(st, dmod, node, None, args, kwargs, line)
            return
        c = self.reg.contracts.get(full)
        if c is None:
            raise EngineError('callee %s has no contract (called at line %d)' % (full, line))
        if getattr(c, 'libimpl', None):
            self.libuse.add(c.libimpl)
            yield from self.lib.LIB[c.libimpl](self, st, list(args), dict(kwargs), line)
            return
        env = self.bind(node, args, kwargs, recv, st, dmod)
        if c.inline:
            yield from self.inline(st, dmod, node, recv, args, kwargs, line, env=env)
            return
        yield from self.apply_contract(st, c, full, env, line)

    TYNAMES = {'str': STR, 'int': INT, 'bool': BOOL, 'real': REAL, 'bytes': BYTES, 'any': ANY,
               'liststr': List(STR)}

    def recursive_decl(self, node):
        for d in node.decorator_list:
            if isinstance(d, ast.Call) and isinstance(d.func, ast.Name) and \
                    d.func.id in ('recursive', 'opaque'):
                kw = {k.arg: ast.literal_eval(k.value) for k in d.keywords}
                kw['fuel'] = 1 if d.func.id == 'recursive' else 3
                return kw
        return None

    def call_recursive(self, st, node, rec, args, kwargs, line):
        """A recursive spec function is an uninterpreted SMT function of its arguments and of
        the heap fields it reads; each call site in a contract or hint contributes ONE unfolding of
        the definition as a fact (fuel 1). Inner recursive calls are not unfolded."""
        env = self.bind(node, args, kwargs, None, st, 'spec')
        names = [a.arg for a in node.args.args]
        ret = self.TYNAMES[rec['returns']]
        reads = rec.get('reads', [])
        dom, actual = [], []
        for loc in reads:
            cls, field = loc.split('.')
            fty = self.reg.field_ty(cls, field)
            for key, sort in self.field_keys((self.reg.root_of(cls), field), fty):
                dom.append(z3.ArraySort(z3.IntSort(), sort))
                actual.append(self.heap_arr(st, key, sort))
        for n in names:
            v = env[n]
            if v.ty.kind == 'list' and v.ty.args[0].kind == 'bot':
                raise EngineError('recursive spec function applied to an untyped empty list')
            if v.ty.kind == 'dict':
                for t in v.t:
                    dom.append(t.sort())
                    actual.append(t)
                continue
            # scalars are passed boxed so that one symbol serves every static typing of a call
            t = v.t if v.ty.kind in ('list', 'int', 'ref') else box(v)
            dom.append(t.sort())
            actual.append(t)
        sig = '_'.join(str(x).replace(' ', '').replace('(', '').replace(')', '') for x in dom)
        import zlib
        f = z3.Function('rec_%s__%d' % (node.name, zlib.crc32(sig.encode()) % 100000),
                        *(dom + [sort_of(ret)]))
        term = f(*actual)
        key = term.get_id()
        if self.unfolding < rec['fuel'] and self.bound_depth == 0 and key not in self._unfolded:
            self._unfolded[key] = term
            self.unfolding += 1
            try:
                clean = State()
                clean.heap = dict(st.heap)
                clean.ghost = dict(st.ghost)
                clean.spec = True
                benv = dict(env)
                benv['__parent__'] = None
                benv['__mod__'] = 'spec'
                clean.env = benv
                saved_undef = self.undef
                self.undef = []
                alts = []
                for s3, out in self.ex_block(node.body, clean):
                    cond = z3.And(*s3.pc) if s3.pc else z3.BoolVal(True)
                    if out is None or out[0] != 'ret':
                        self.undef.append(cond)
                        continue
                    alts.append((cond, out[1]))
                und = self.undef
                self.undef = saved_undef
                if alts:
                    body = alts[-1][1]
                    for c, v in reversed(alts[:-1]):
                        body = same_sort_merge(c, v, body)
                    body = self.coerce(body, ret)
                    bt = box(body) if ret.kind == 'any' else body.t
                    eq = term == bt
                    if und:
                        eq = z3.Implies(z3.Not(z3.Or(*und)), eq)
                    k = eq.get_id()
                    if k not in self._fact_ids:
                        self._fact_ids.add(k)
                        self.facts.append(eq)
            finally:
                self.unfolding -= 1
        return V(ret, term)

    def inline(self, st, modname, node, recv, args, kwargs, line, env=None, parent=None):
        if env is None:
            env = self.bind(node, args, kwargs, recv, st, modname)
        env['__parent__'] = parent
        env['__mod__'] = modname
        s2 = st.copy()
        saved = s2.env
        s2.env = env
        for s3, out in self.ex_block(node.body, s2):
            s3.env = saved
            if out is None:
                yield s3, VNONE
            elif out[0] == 'ret':
                yield s3, out[1]
            elif out[0] == 'raise':
                yield s3, out[1]
            else:
                raise EngineError('break/continue escaped a function')

    def call_closure(self, st, d, args, kwargs, line, awaited=False):
        _, node, cenv, modname, outer = d
        if isinstance(node, ast.AsyncFunctionDef) and not awaited and not st.spec:
            yield st, V(FN, ('coro', d, args, kwargs))
            return
        # closures see the *current* bindings of the enclosing frame
        parent = st.env if self._env_contains(st.env, cenv) else cenv
        env = self.bind(node, args, kwargs, None, st, modname)
        yield from self.inline(st, modname, node, None, args, kwargs, line, env=env,
                               parent=parent)

    def _env_contains(self, env, marker):
        fid = marker.get('__frame__')
        while env is not None:
            if env.get('__frame__') == fid:
                return True
            env = env.get('__parent__')
        return False

    def construct(self, st, modname, clsname, args, kwargs, line):
        if modname == 'exceptions' or clsname in EXC_PARENT and modname is None:
            yield st, V(EXC, Raise(clsname, args, line))
            return
        if clsname not in self.reg.schemas:
            raise EngineError('no schema for class %s' % clsname)
        s2 = st.copy()
        ref = self.alloc(s2, clsname)
        # __init__
        try:
            dmod, dqual, node = self.find_method(modname, clsname + '.__init__')
        except EngineError:
            yield s2, ref
            return
        for s3, r in self.call_repo(s2, modname, clsname + '.__init__', ref, args, kwargs, line):
            if isinstance(r, Raise):
                yield s3, r
            else:
                yield s3, ref

    def alloc(self, st, clsname):
        a = st.ghost['$alloc']
        st.ghost['$alloc'] = V(INT, a.t + 1)
        return V(Ref(clsname), a.t + 1)     # fresh: above every pre-existing id

    # -----------------------------------------------------------------------------------------
    # contract application at a call site
    def apply_contract(self, st, c, full, env, line):
        penv = dict(env)
        penv['__parent__'] = None
        penv['__mod__'] = 'spec'
        # coerce actuals to declared parameter types
        for n, ty in c.params.items():
            if isinstance(ty, list) and n in penv:
                match = penv[n].ty if penv[n].ty in ty else None      # exact type first
                for t in ([] if match is not None else ty):
                    if t.kind != penv[n].ty.kind:
                        continue
                    try:
                        self.coerce(penv[n], t)
                    except (EngineError, TypeError):
                        continue
                    match = t
                    break
                if match is None:
                    raise EngineError('actual %r for %s.%s matches none of %r'
                                      % (penv[n].ty, full, n, ty))
                ty = match
            if n in penv and penv[n].ty != ty:
                src = penv[n]
                if is_opt(src.ty) and ty.kind == 'ref' and not is_opt(ty):
                    self.oblige(st, 'pre@callsite', '%s:%s-not-None' % (full, n), src.t != 0,
                                props=c.props, line=line)
                if src.ty.kind == 'list' and is_opt(src.ty.args[0]) and ty.kind == 'list' \
                        and ty.args[0].kind == 'ref' and not is_opt(ty.args[0]):
                    k = z3.Int(self.name('q_nn'))
                    g = z3.ForAll([k], z3.Implies(z3.And(k >= 0, k < z3.Length(src.t)),
                                                  src.t[k] != 0))
                    self.quants[g.get_id()] = (g, [k], [k >= 0, k < z3.Length(src.t)],
                                               src.t[k] != 0)
                    self.oblige(st, 'pre@callsite', '%s:%s-no-None-elements' % (full, n), g,
                                props=c.props, line=line)
                try:
                    penv[n] = self.coerce(penv[n], ty)
                except EngineError:
                    if penv[n].ty.kind == 'none' and ty.kind == 'any':
                        penv[n] = V(ANY, PV.pnone)
                    else:
                        raise
        for cl in c.requires_:
            g = self.spec_bool(cl.src, st, penv, goal=True)
            self.oblige(st, 'pre@callsite', '%s:%s' % (full, cl.label), g,
                        props=c.props, line=line)
        pre = st.copy()
        post = st.copy()
        self.havoc_alloc(post)
        self.havoc(post, c.modifies_, penv, full)
        # outcomes
        whens = []
        for rc in c.raises_:
            w = self.spec_bool(rc.when, pre, penv)
            whens.append(w)
            s2 = post.copy()
            s2 = self.add_all(s2, [w] + [self.spec_bool(cl.src, s2, penv, pre=pre)
                                         for cl in rc.ensures])
            if s2 is not None:
                s2.trace = s2.trace + ('c%d!%s' % (line, rc.label),)
                yield s2, Raise(rc.exc, (), line)
        s2 = post
        for rc, w in zip(c.raises_, whens):
            if rc.exact:
                s2.pc.append(z3.Not(w))
        if c.ret_cases is not None:
            for lab, guard, ty in c.ret_cases:
                s3 = self.assume(s2, self.spec_bool(guard, pre, penv))
                if s3 is None:
                    continue
                res = VNONE if ty.kind == 'none' else self.fresh(ty, 'ret_' + full.split('.')[-1],
                                                                 s3)
                s3 = self.add_all(s3, [self.spec_bool(cl.src, s3, penv, result=res, pre=pre)
                                       for cl in c.ensures_])
                if s3 is not None:
                    s3.trace = s3.trace + ('c%d:%s' % (line, lab),)
                    yield s3, res
            return
        ret = c.ret({n: v.ty for n, v in penv.items() if isinstance(v, V)}) \
            if callable(c.ret) else c.ret
        if ret is None:
            res = VNONE
        else:
            res = self.fresh(ret, 'ret_' + full.split('.')[-1], s2)
        s2 = self.add_all(s2, [self.spec_bool(cl.src, s2, penv, result=res, pre=pre)
                               for cl in c.ensures_ + [r[0] for r in c.relies_]])
        if s2 is not None:
            for cl, reason in c.relies_:
                note = 'rely %s.%s: %s' % (full, cl.label, reason)
                if note not in self.dropped:
                    self.dropped.append(note)
            yield s2, res

    def havoc(self, st, locs, penv, full):
        for loc in locs:
            if loc.startswith('ghost.'):
                g = loc[6:]
                ty = self.reg.ghosts[g]
                st.ghost[g] = self.fresh(ty, 'g_' + g, st)
                self._wrote(st, ('ghost', g))
                continue
            only_new = loc.startswith('new ')
            if only_new:
                loc = loc[4:]
            base, field = loc.rsplit('.', 1)
            if base in self.reg.schemas:
                # any object of the class (`new`: only objects allocated from here on)
                fty = self.reg.field_ty(base, field)
                for key, sort in self.field_keys((self.reg.root_of(base), field), fty):
                    old = self.heap_arr(st, key, sort)
                    new = z3.Const(self.name('H_%s_%s' % key[:2]),
                                   z3.ArraySort(z3.IntSort(), sort))
                    st.heap[key] = new
                    self._wrote(st, key)
                    if only_new:
                        k = z3.Int(self.name('q_obj'))
                        lim = st.ghost['$alloc_at_havoc'].t if '$alloc_at_havoc' in st.ghost \
                            else st.ghost['$alloc'].t
                        body = z3.Select(new, k) == z3.Select(old, k)
                        q = z3.ForAll([k], z3.Implies(k <= lim, body))
                        self.quants[q.get_id()] = (q, [k], [k <= lim], body)
                        kk = q.get_id()
                        if kk not in self._fact_ids:
                            self._fact_ids.add(kk)
                            self.facts.append(q)
            else:
                obj = self.spec(base, st, penv)
                if obj.ty.kind != 'ref':
                    raise EngineError('modifies target %s is not an object' % loc)
                fty = self.reg.field_ty(obj.ty.args[0], field)
                if fty is None:
                    raise EngineError('modifies: unknown field %s' % loc)
                for key, sort in self.field_keys((self.reg.root_of(obj.ty.args[0]), field), fty):
                    old = self.heap_arr(st, key, sort)
                    st.heap[key] = z3.Store(old, obj.t, z3.Const(self.name('hv_' + field), sort))
                    self._wrote(st, key)

    def field_keys(self, key, fty):
        k = fty.kind
        if k == 'recf':
            for kk, tt in fty.args:
                yield from self.field_keys((key[0], key[1] + '.' + kk), tt)
        elif k == 'dict':
            ks, vs = sort_of(fty.args[0]), sort_of(fty.args[1])
            yield key + ('dom',), z3.ArraySort(ks, z3.BoolSort())
            yield key + ('map',), z3.ArraySort(ks, vs)
        elif k != 'none':
            yield key, sort_of(fty)

    # -----------------------------------------------------------------------------------------
    # statements: yield (state, outcome) with outcome None | ('ret', V) | ('raise', Raise) |
    # ('break',) | ('continue',)
    def ex_block(self, stmts, st):
        if not stmts:
            yield st, None
            return
        for s1, out in self.ex(stmts[0], st):
            if self.shard is not None and not s1.sharded and not s1.spec and \
                    len(s1.trace) >= self.shard_depth:
                # path sharding: each worker follows the paths whose first branch decisions hash
                # to its index (the common prefix is explored by every worker)
                import zlib
                s1.sharded = True
                h = zlib.crc32(repr(s1.trace[:self.shard_depth]).encode())
                if h % self.shard[1] != self.shard[0]:
                    continue
            if out is None:
                yield from self.ex_block(stmts[1:], s1)
            else:
                yield s1, out

    def ex(self, s, st):
        c = self.cur_contract
        if c is not None and c.abstract_ and not st.spec:
            seg = self._stmt_text(s)
            for pat, reason in c.abstract_:
                if seg.startswith(pat):
                    note = 'abstract region (not modelled): line %d: %s - %s' % (
                        s.lineno, pat, reason)
                    if note not in self.dropped:
                        self.dropped.append(note)
                    self.check_hits.add(('abstract', pat))
                    return iter([(st, None)])
        if c is not None and c.cuts_ and not st.spec and id(s) not in self._in_cut:
            seg = self._stmt_text(s)
            for pat, invs in c.cuts_:
                if seg.startswith(pat):
                    return self._cut(s, st, pat, invs)
        if c is not None and c.ghost_before_ and not st.spec:
            seg = self._stmt_text(s)
            for pat, name, src in c.ghost_before_:
                if seg.startswith(pat):
                    self.check_hits.add(pat)
                    st = st.copy()
                    self.setlocal(st, name, self.spec(src, st, dict(st.env)))
        if c is not None and c.checks_ and not st.spec:
            seg = self._stmt_text(s)
            for pat, cl in c.checks_:
                if seg.startswith(pat):
                    self.check_hits.add(pat)
                    self.oblige(st, 'assert', cl.label,
                                self.spec_bool(cl.src, st, dict(st.env), goal=True),
                                props=cl.props, line=s.lineno)
        m = getattr(self, 'ex_' + type(s).__name__, None)
        if m is None:
            raise EngineError('unsupported statement %s at line %d'
                              % (type(s).__name__, s.lineno))
        return m(s, st)

    def _cut(self, s, st, pat, invs):
        self.check_hits.add(pat)
        for cl in invs:
            self.oblige(st, 'cut', cl.label, self.spec_bool(cl.src, st, dict(st.env), goal=True),
                        props=cl.props, line=s.lineno)
        used = set()
        for n in ast.walk(self._cur_node):
            if isinstance(n, ast.Name) and isinstance(n.ctx, ast.Load) and \
                    getattr(n, 'lineno', 0) >= s.lineno:
                used.add(n.id)
        for cl in invs:
            for n in ast.walk(ast.parse(cl.src.strip(), mode='eval')):
                if isinstance(n, ast.Name):
                    used.add(n.id)
        shape = tuple(sorted((k, repr(v.ty) if v.ty.kind != 'rec' else
                              'rec' + repr(sorted(v.t))) for k, v in st.env.items()
                             if not k.startswith('__') and k in used and
                             v.ty.kind not in ('fn', 'mod', 'exc')))
        key = (id(s), shape)
        if key in self._loops_done:
            return iter(())
        self._loops_done[key] = True
        pre = self.cur_pre
        head = pre.copy()
        head.pre = pre
        head.entry_env = st.entry_env
        head.trace = ('K%d.%d' % (s.lineno, len([1 for k in self._loops_done
                                                  if isinstance(k, tuple) and k[0] == id(s)])),)
        head.sharded = True         # every shard that arrives explores the whole continuation
                                    # (re-sharding here would lose paths of shards that never
                                    # arrive with this shape)
        head.writes = set()
        self.havoc_alloc(head)
        self.havoc(head, self.cur_contract.modifies_, self.cur_penv, 'cut')
        env = dict(st.env)
        names = set(k for k, _ in shape)
        for k, v in st.env.items():
            if k.startswith('__') or k in self.cur_penv and st.env[k] is self.cur_penv[k]:
                continue
            if v.ty.kind in ('fn', 'mod'):
                continue
            if k not in names:
                del env[k]
                continue
            env[k] = v if v.ty.kind == 'none' else self.fresh_like(v, k, head)
        head.env = env
        head = self.add_all(head, [self.spec_bool(cl.src, head, env) for cl in invs])
        if head is None:
            return iter(())
        self._in_cut.add(id(s))

        def run():
            try:
                yield from self.ex(s, head)
            finally:
                self._in_cut.discard(id(s))
        return run()

    def _stmt_text(self, s):
        try:
            return ' '.join(ast.unparse(s).split())
        except Exception:
            return ''

    def ex_Pass(self, s, st):
        yield st, None

    def ex_Global(self, s, st):
        yield st, None

    def ex_Expr(self, s, st):
        if isinstance(s.value, ast.Constant):       # docstring
            yield st, None
            return
        v = s.value
        if isinstance(v, ast.Await):
            v = v.value
        if isinstance(v, ast.Call) and isinstance(v.func, ast.Attribute) and \
                v.func.attr == 'append' and len(v.args) == 1 and \
                isinstance(v.func.value, (ast.Name, ast.Attribute)):
            done = False
            for s1, vs in self.ev_list([v.func.value, v.args[0]], st):
                if isinstance(vs, Raise):
                    yield s1, ('raise', vs)
                    done = True
                    continue
                if vs[0].ty.kind == 'list':
                    done = True
                    self.no_shared_mutation(s1, vs[0], s.lineno)
                    for s2, r in self.lib.binop(self, s1, ast.Add(), vs[0],
                                                self.lib.mklist(self, [vs[1]]), s.lineno):
                        if isinstance(r, Raise):
                            raise EngineError('append of incompatible element at line %d'
                                              % s.lineno)
                        yield from self.assign(v.func.value, r, s2, s.lineno)
            if done:
                return
        for s1, v in self.ev(s.value, st):
            if isinstance(v, Raise):
                yield s1, ('raise', v)
            elif v.ty.kind == 'fn' and v.t[0] == 'coro':
                raise EngineError('coroutine never awaited at line %d' % s.lineno)
            else:
                yield s1, None

    def ex_Return(self, s, st):
        if s.value is None:
            yield st, ('ret', VNONE)
            return
        for s1, v in self.ev(s.value, st):
            if isinstance(v, Raise):
                yield s1, ('raise', v)
            else:
                yield s1, ('ret', v)

    def ex_Assign(self, s, st):
        for s1, v in self.ev(s.value, st):
            if isinstance(v, Raise):
                yield s1, ('raise', v)
                continue
            if len(s.targets) != 1:
                raise EngineError('chained assignment at line %d' % s.lineno)
            yield from self.assign(s.targets[0], v, s1, s.lineno)

    def assign(self, target, v, st, line):
        if isinstance(target, ast.Name):
            s2 = st.copy()
            if isinstance(v, V) and v.ty.kind in ('str', 'bytes') and not st.spec and \
                    term_size(v.t, 8) >= 8:
                # name a large string value (keeps later formulas small; the equation is a
                # definition, so nothing is lost)
                c = z3.Const(self.name(target.id), v.t.sort())
                s2.pc.append(c == v.t)
                v = V(v.ty, c)
            self.setlocal(s2, target.id, v)
            yield s2, None
        elif isinstance(target, ast.Attribute):
            for s1, o in self.ev(target.value, st):
                if isinstance(o, Raise):
                    yield s1, ('raise', o)
                    continue
                if o.ty.kind != 'ref':
                    raise EngineError('attribute store on %r at line %d' % (o.ty, line))
                s2 = s1.copy()
                self.heap_store(s2, o, target.attr, v)
                yield s2, None
        elif isinstance(target, ast.Subscript):
            for s1, vs in self.ev_list([target.value, target.slice], st):
                if isinstance(vs, Raise):
                    yield s1, ('raise', vs)
                    continue
                o, i = vs
                self.no_shared_mutation(s1, o, line)
                for s2, newo in self.lib.setitem(self, s1, o, i, v, line):
                    if isinstance(newo, Raise):
                        yield s2, ('raise', newo)
                    else:
                        yield from self.assign(target.value, newo, s2, line)
        elif isinstance(target, (ast.Tuple, ast.List)):
            for s1, items in self.lib.unpack(self, st, v, len(target.elts), line):
                if isinstance(items, Raise):
                    yield s1, ('raise', items)
                    continue
                yield from self._assign_many(target.elts, items, s1, line)
        else:
            raise EngineError('unsupported assignment target at line %d' % line)

    def _assign_many(self, targets, vals, st, line):
        if not targets:
            yield st, None
            return
        for s1, out in self.assign(targets[0], vals[0], st, line):
            if out is not None:
                yield s1, out
            else:
                yield from self._assign_many(targets[1:], vals[1:], s1, line)

    def ex_AugAssign(self, s, st):
        load = s.target
        for s1, vs in self.ev_list([load, s.value], st):
            if isinstance(vs, Raise):
                yield s1, ('raise', vs)
                continue
            if vs[0].ty.kind in ('list', 'pylist'):
                self.no_shared_mutation(s1, vs[0], s.lineno)       # list += is in place
            for s2, r in self.lib.binop(self, s1, s.op, vs[0], vs[1], s.lineno):
                if isinstance(r, Raise):
                    yield s2, ('raise', r)
                else:
                    yield from self.assign(s.target, r, s2, s.lineno)

    def no_shared_mutation(self, st, v, line):
        """In-place mutation of a module-/class-level object: a write to a location that is in
        no function's frame (it is shared by every request and every server instance)."""
        if getattr(v, 'origin', None) is not None and not st.spec:
            c = self.cur_contract
            self.oblige(st, 'frame', 'shared-constant:' + v.origin, z3.BoolVal(False),
                        props=c.props if c is not None else None, line=line,
                        note='%s is mutated in place at line %d; the object is shared by all '
                             'callers' % (v.origin, line))

    def ex_Delete(self, s, st):
        if len(s.targets) != 1 or not isinstance(s.targets[0], ast.Subscript):
            raise EngineError('unsupported del at line %d' % s.lineno)
        t = s.targets[0]
        for s1, vs in self.ev_list([t.value, t.slice], st):
            if isinstance(vs, Raise):
                yield s1, ('raise', vs)
                continue
            self.no_shared_mutation(s1, vs[0], s.lineno)
            for s2, newo in self.lib.delitem(self, s1, vs[0], vs[1], s.lineno):
                if isinstance(newo, Raise):
                    yield s2, ('raise', newo)
                else:
                    yield from self.assign(t.value, newo, s2, s.lineno)

    def refine(self, st, test, side):
        """Flow typing: after `isinstance(x, T)` / `x is None` on a local of unknown type."""
        if isinstance(test, ast.UnaryOp) and isinstance(test.op, ast.Not):
            return self.refine(st, test.operand, not side)
        if isinstance(test, ast.Call) and isinstance(test.func, ast.Name) and \
                test.func.id == 'isinstance' and len(test.args) == 2 and side and \
                isinstance(test.args[0], ast.Name) and isinstance(test.args[1], ast.Name):
            ty = {'str': STR, 'bytes': BYTES, 'bytearray': BYTEARRAY, 'float': REAL}.get(
                test.args[1].id)
            v = self.lookup(st, test.args[0].id, None)
            if ty is not None and v is not None and v.ty.kind == 'any' and \
                    test.args[0].id in st.env:
                self.setlocal(st, test.args[0].id, unbox(v.t, ty))
        if isinstance(test, ast.Compare) and len(test.ops) == 1 and \
                isinstance(test.left, ast.Name) and isinstance(test.comparators[0], ast.Constant) \
                and test.comparators[0].value is None and test.left.id in st.env:
            v = st.env[test.left.id]
            isnone = (isinstance(test.ops[0], ast.Is) and side or
                      isinstance(test.ops[0], ast.IsNot) and not side)
            if v.ty.kind == 'any' and isnone:
                self.setlocal(st, test.left.id, VNONE)
            if is_opt(v.ty) and not isnone:
                self.setlocal(st, test.left.id, V(Ref(v.ty.args[0]), v.t))

    def ex_If(self, s, st):
        for s1, c in self.ev(s.test, st):
            if isinstance(c, Raise):
                yield s1, ('raise', c)
                continue
            for s2, side in self.fork(s1, truth(c)):
                s2.trace = s2.trace + (('%d%s' % (s.lineno, 'T' if side else 'F')),)
                self.refine(s2, s.test, side)
                yield from self.ex_block(s.body if side else s.orelse, s2)

    def ex_Raise(self, s, st):
        if s.exc is None:
            if st.exc is None:
                raise EngineError('bare raise outside handler at line %d' % s.lineno)
            yield st, ('raise', st.exc)
            return
        for s1, v in self.ev(s.exc, st):
            if isinstance(v, Raise):
                yield s1, ('raise', v)
            elif v.ty.kind == 'exc':
                r = v.t
                yield s1, ('raise', Raise(r.cls, r.args, s.lineno if r.line == 0 else r.line))
            elif v.ty.kind == 'fn' and v.t[0] in ('class', 'excclass'):
                yield s1, ('raise', Raise(v.t[-1], (), s.lineno))
            else:
                raise EngineError('raise of non-exception at line %d' % s.lineno)

    def exc_classes(self, st, texpr):
        """Handler type expression -> list of exception class names (None = bare)."""
        if texpr is None:
            return [None]
        if isinstance(texpr, ast.Tuple):
            out = []
            for t in texpr.elts:
                out += self.exc_classes(st, t)
            return out
        if isinstance(texpr, ast.Attribute) and texpr.attr == 'Empty':
            # q.Empty: the clients' create_queue() stores queue.Empty / asyncio.QueueEmpty there
            return ['QueueEmptyLib']
        vals = [v for _, v in self.ev(texpr, st)]
        if len(vals) != 1 or isinstance(vals[0], Raise):
            raise EngineError('cannot resolve exception class at line %d' % texpr.lineno)
        v = vals[0]
        if v.ty.kind == 'fn' and v.t[0] in ('class', 'excclass'):
            return [v.t[-1]]
        if v.ty.kind == 'opaque' and v.ty.args[0] == 'ExcClass':
            return ['QueueEmptyLib']       # the async driver's queue-empty exception class
        raise EngineError('cannot resolve exception class at line %d' % texpr.lineno)

    def ex_Try(self, s, st):
        def after_final(s1, out):
            if not s.finalbody:
                yield s1, out
                return
            for s2, o2 in self.ex_block(s.finalbody, s1):
                yield s2, (o2 if o2 is not None else out)
        for s1, out in self.ex_block(s.body, st):
            if out is None:
                for s2, o2 in self.ex_block(s.orelse, s1):
                    yield from after_final(s2, o2)
                continue
            if out[0] != 'raise':
                yield from after_final(s1, out)
                continue
            r = out[1]
            handled = False
            for h in s.handlers:
                classes = self.exc_classes(s1, h.type)
                if any(c is None or exc_is_sub(r.cls, c) for c in classes):
                    handled = True
                    s2 = s1.copy()
                    saved_exc = s2.exc
                    s2.exc = r
                    s2.trace = s2.trace + ('x%d' % h.lineno,)
                    if h.name:
                        self.setlocal(s2, h.name, V(EXC, r))
                    for s3, o3 in self.ex_block(h.body, s2):
                        s3.exc = saved_exc
                        yield from after_final(s3, o3)
                    break
            if not handled:
                yield from after_final(s1, out)

    def ex_With(self, s, st):
        if len(s.items) != 1:
            raise EngineError('multi-item with at line %d' % s.lineno)
        it = s.items[0]
        for s1, v in self.ev(it.context_expr, st):
            if isinstance(v, Raise):
                yield s1, ('raise', v)
                continue
            s2 = s1.copy()
            if it.optional_vars is not None:
                if not isinstance(it.optional_vars, ast.Name):
                    raise EngineError('with target')
                self.setlocal(s2, it.optional_vars.id, v)
            yield from self.ex_block(s.body, s2)

    def ex_FunctionDef(self, s, st):
        s2 = st.copy()
        env = dict(s2.env)
        if '__frame__' not in env:
            env['__frame__'] = next(self.counter)
        s2.env = env
        self.setlocal(s2, s.name, V(FN, ('closure', s, s2.env, self.modname(st),
                                        self.cur_func)))
        yield s2, None

    ex_AsyncFunctionDef = ex_FunctionDef

    def ex_ClassDef(self, s, st):
        s2 = st.copy()
        self.setlocal(s2, s.name, V(FN, ('localclass', s)))
        yield s2, None

    def ex_Break(self, s, st):
        yield st, ('break',)

    def ex_Continue(self, s, st):
        yield st, ('continue',)

    def ex_Assert(self, s, st):
        yield st, None

    # -- loops --------------------------------------------------------------------------------
    def loop_spec(self, s):
        c = self.cur_contract
        if c is None or st_spec_only(self):
            return None, None
        ordn = self.loop_ordinals.get(id(s))
        return c.loops.get(ordn), ordn

    def ex_While(self, s, st):
        spec, ordn = self.loop_spec(s)
        if s.orelse:
            raise EngineError('while/else unsupported')
        if spec is None or spec.unroll:
            yield from self._unroll_while(s, st, spec.unroll if spec else 0, ordn)
            return
        if getattr(spec, 'summarize', False) and not st.spec:
            head = self._summarized_head(s, st, spec, ordn)
        else:
            head = self._loop_head(s, st, spec, ordn, None)
        if head is None:
            return
        for s1, c in self.ev(s.test, head):
            if isinstance(c, Raise):
                yield s1, ('raise', c)
                continue
            for s2, side in self.fork(s1, truth(c)):
                if not side:
                    yield self._loop_exit(s2, st), None
                    continue
                s2.trace = s2.trace + ('w%d' % s.lineno,)
                for s3, out in self.ex_block(s.body, s2):
                    yield from self._loop_tail(s, s3, out, spec, ordn, st, None)

    def _summarized_head(self, s, st, spec, ordn):
        """Modular loop cut: inv-init is proved for every arriving path, but the loop body and
        the code after the loop are explored ONCE, from an arbitrary state that satisfies the
        function's entry assumptions, the function-level frame and the invariant (nothing else is
        remembered from the arriving path). Sound: that state is weaker than every arrival."""
        self._pre_loop_locals[id(s)] = set(k for k in st.env if not k.startswith('__'))
        for cl in spec.invariants:
            g = self.spec_bool(cl.src, st, dict(st.env), goal=True)
            self.oblige(st, 'inv-init', 'loop%d:%s' % (ordn, cl.label), g, props=cl.props,
                        line=s.lineno)
        # only locals that are read at or after the loop matter; names the loop itself assigns
        # (its declared frame) may be unbound on some arrivals (loop-local temporaries)
        used = set()
        fn = self._cur_node
        for n in ast.walk(fn):
            if isinstance(n, ast.Name) and isinstance(n.ctx, ast.Load) and \
                    getattr(n, 'lineno', 0) >= s.lineno:
                used.add(n.id)
        shape = {k: v.ty for k, v in st.env.items()
                 if not k.startswith('__') and k in used and k not in spec.modifies}
        done = self._loops_done.get(id(s))
        if done is not None:
            if done != shape:
                raise EngineError('summarized loop %d at line %d is reached with differently '
                                  'typed locals' % (ordn, s.lineno))
            return None
        self._loops_done[id(s)] = shape
        pre = self.cur_pre
        head = pre.copy()
        head.pre = pre
        head.entry_env = st.entry_env
        head.trace = ('L%d' % s.lineno,)
        head.sharded = True
        head.loopw = set()
        head.writes = set()
        self.havoc_alloc(head)
        self.havoc(head, self.cur_contract.modifies_, self.cur_penv, 'loop')
        head.loopw = set()
        env = dict(st.env)
        for k, v in st.env.items():
            if k.startswith('__') or k in self.cur_penv and st.env[k] is self.cur_penv[k]:
                continue
            if v.ty.kind in ('fn', 'mod'):
                continue
            if k not in shape:
                del env[k]          # dead, or first assigned by the loop itself
                continue
            env[k] = self.fresh_like(v, k, head)
        head.env = env
        return self.add_all(head, [self.spec_bool(cl.src, head, env) for cl in spec.invariants])

    def _unroll_while(self, s, st, n, ordn):
        raise EngineError('loop %s at line %d has no invariant' % (ordn, s.lineno))

    def _loop_head(self, s, st, spec, ordn, idx):
        """inv-init obligations; havoc the loop frame; assume the invariant."""
        self._pre_loop_locals[id(s)] = set(k for k in st.env if not k.startswith('__'))
        env0 = dict(st.env)
        if idx is not None:
            env0[spec.index or '_i'] = vint(0)
        for cl in spec.invariants:
            g = self.spec_bool(cl.src, st, env0, goal=True)
            self.oblige(st, 'inv-init', 'loop%d:%s' % (ordn, cl.label), g, props=cl.props,
                        line=s.lineno)
        head = st.copy()
        head.loopw = set()
        self.havoc_alloc(head)
        env = dict(head.env)
        for loc in spec.modifies:
            if loc.startswith('ghost.') or '.' in loc:
                self.havoc(head, [loc], env, 'loop')
            else:
                old = env.get(loc)
                if old is None:
                    continue        # first assigned inside the loop: loop-local
                env[loc] = self.fresh_like(old, loc, head)
        head.loopw = set()
        if idx is not None:
            env[spec.index or '_i'] = idx
        head.env = env
        return self.add_all(head, [self.spec_bool(cl.src, head, env) for cl in spec.invariants])

    def havoc_alloc(self, st):
        """Objects may have been allocated by earlier iterations / by a callee."""
        a0 = st.ghost['$alloc'].t
        a1 = z3.Int(self.name('alloc'))
        st.pc.append(a1 >= a0)
        st.ghost['$alloc'] = V(INT, a1)

    def fresh_like(self, v, hint, st):
        if v.ty.kind == 'rec':
            return V(REC, {k: self.fresh_like(x, hint + '.' + k, st) for k, x in v.t.items()})
        if v.ty.kind == 'tup':
            return V(v.ty, tuple(self.fresh_like(x, '%s.%d' % (hint, i), st)
                                 for i, x in enumerate(v.t)))
        if v.ty.kind in ('fn', 'mod', 'exc'):
            raise EngineError('cannot havoc structural local %s' % hint)
        if v.ty.kind == 'none':
            return V(ANY, self.fresh(ANY, hint, st).t)
        if v.ty.kind == 'list' and v.ty.args[0].kind == 'bot':
            raise EngineError('cannot havoc untyped empty list %s' % hint)
        return self.fresh(v.ty, hint, st)

    def _loop_exit(self, s2, st0):
        s2 = s2.copy()      # library generators may still copy the state they yielded
        s2.loopw = None if st0.loopw is None else (set(st0.loopw) | (s2.loopw or set()))
        return s2

    def _loop_tail(self, s, s3, out, spec, ordn, st0, idx_next):
        """End of one iteration of the loop body."""
        if out is None or out[0] == 'continue':
            self._check_loop_frame(s, s3, spec, ordn)
            env = dict(s3.env)
            if idx_next is not None:
                env[spec.index or '_i'] = idx_next
            for cl in spec.invariants:
                g = self.spec_bool(cl.src, s3, env, goal=True)
                self.oblige(s3, 'inv-keep', 'loop%d:%s' % (ordn, cl.label), g, props=cl.props,
                            line=s.lineno)
            return
        if out[0] == 'break':
            self._check_loop_frame(s, s3, spec, ordn)
            if getattr(spec, 'complete', False):
                self.oblige(s3, 'loop-complete', 'loop%d:runs-to-completion' % ordn,
                            z3.BoolVal(False), props=getattr(spec, 'props', None), line=s.lineno,
                            note='the loop is left through `break` before every element was '
                                 'visited')
            yield self._loop_exit(s3, st0), None
        else:
            self._check_loop_frame(s, s3, spec, ordn)
            yield self._loop_exit(s3, st0), out

    def _check_loop_frame(self, s, st, spec, ordn):
        allowed = set()
        for loc in spec.modifies:
            if loc.startswith('ghost.'):
                allowed.add(('ghost', loc[6:]))
            elif '.' in loc:
                if loc.startswith('new '):
                    loc = loc[4:]
                base, field = loc.rsplit('.', 1)
                if base in self.reg.schemas:
                    cls = base
                else:
                    cls = self.spec(base, st, dict(st.env)).ty.args[0]
                fty = self.reg.field_ty(cls, field)
                for key, _ in self.field_keys((self.reg.root_of(cls), field), fty):
                    allowed.add(key)
        bad = [k for k in (st.loopw or ()) if k not in allowed]
        if bad:
            raise EngineError('loop %d at line %d writes %s outside its declared frame'
                              % (ordn, s.lineno, bad))
        # locals
        assigned = set()
        for n in ast.walk(ast.Module(body=s.body, type_ignores=[])):
            if isinstance(n, ast.Name) and isinstance(n.ctx, ast.Store):
                assigned.add(n.id)
        if isinstance(s, ast.For) and isinstance(s.target, ast.Name):
            assigned.discard(s.target.id)
        for n in assigned:
            if n not in spec.modifies and self._live_before(s, n, st):
                raise EngineError('loop %d at line %d assigns local %s outside its declared '
                                  'frame' % (ordn, s.lineno, n))

    def _live_before(self, s, name, st):
        return name in self._pre_loop_locals.get(id(s), ())

    def ex_For(self, s, st):
        if s.orelse:
            raise EngineError('for/else unsupported')
        for s1, xs in self.ev(s.iter, st):
            if isinstance(xs, Raise):
                yield s1, ('raise', xs)
                continue
            yield from self.lib.iterate(self, s1, s, xs)

    def for_seq(self, s, st, xs, elemty, axiom=None, elem=None):
        """for target in <Seq xs>: with the sidecar invariant (ghost index)."""
        spec, ordn = self.loop_spec(s)
        if spec is None:
            raise EngineError('for loop %s at line %d has no invariant' % (ordn, s.lineno))
        self._pre_loop_locals[id(s)] = set(k for k in st.env if not k.startswith('__'))
        i = z3.Int(self.name('i%d' % ordn))
        # ghost local xs<ordinal>: the sequence being iterated (so that invariants need not
        # re-derive it from the iterable expression, e.g. a slice)
        st = st.copy()
        st.env = dict(st.env)
        st.env['xs%d' % ordn] = V(List(elemty), xs)
        head = self._loop_head(s, st, spec, ordn, vint(i))
        if head is None:
            return
        head.pc.append(i >= 0)
        head.pc.append(i <= z3.Length(xs))
        for s2, side in self.fork(head, i < z3.Length(xs)):
            if not side:
                yield self._loop_exit(s2, st), None
                continue
            s2.trace = s2.trace + ('f%d' % s.lineno,)
            x = V(elemty, xs[i]) if elem is None else elem(i)
            if axiom is not None:
                s2.pc.append(axiom(i))
            for s3, o in self.assign(s.target, x, s2, s.lineno):
                if o is not None:
                    yield s3, o
                    continue
                for s4, out in self.ex_block(s.body, s3):
                    yield from self._loop_tail(s, s4, out, spec, ordn, st, vint(i + 1))

    def for_concrete(self, s, st, items):
        """for target in <python-side list>: unrolled exactly."""
        def go(s1, rest):
            if not rest:
                yield s1, None
                return
            for s2, o in self.assign(s.target, rest[0], s1, s.lineno):
                if o is not None:
                    yield s2, o
                    continue
                for s3, out in self.ex_block(s.body, s2):
                    if out is None or out[0] == 'continue':
                        yield from go(s3, rest[1:])
                    elif out[0] == 'break':
                        yield s3, None
                    else:
                        yield s3, out
        yield from go(st, list(items))

    # -----------------------------------------------------------------------------------------
    # verifying one function against its contract
    def number_loops(self, node):
        self.loop_ordinals = {}
        self._pre_loop_locals = {}
        n = 0

        def visit(body_owner):
            nonlocal n
            for ch in ast.iter_child_nodes(body_owner):
                if isinstance(ch, (ast.FunctionDef, ast.AsyncFunctionDef, ast.ClassDef,
                                   ast.Lambda)) and ch is not node:
                    continue
                if isinstance(ch, (ast.For, ast.While, ast.ListComp)):
                    self.loop_ordinals[id(ch)] = n
                    n += 1
                visit(ch)
        visit(node)
        # nested function loops get ordinals after the outer ones, in source order
        for ch in ast.walk(node):
            if isinstance(ch, (ast.For, ast.While, ast.ListComp)) and \
                    id(ch) not in self.loop_ordinals:
                self.loop_ordinals[id(ch)] = n
                n += 1

    def initial_state(self, c, node, modname):
        st = State()
        st.ghost['$alloc'] = V(INT, z3.Int('alloc0'))
        st.pc.append(z3.Int('alloc0') >= 0)
        env = {'__parent__': None, '__mod__': modname, '__frame__': next(self.counter)}
        for g, ty in self.reg.ghosts.items():
            st.ghost[g] = self.fresh(ty, 'g_' + g, st, inp=True)
        a = node.args
        names = [x.arg for x in a.args] + [x.arg for x in a.kwonlyargs]
        for n in names:
            if n not in c.params:
                raise EngineError('contract of %s does not type parameter %r'
                                  % (self.cur_func, n))
            env[n] = self.fresh(self.typing.get(n, c.params[n]), n, st, inp=True)
        if a.vararg is not None:
            env[a.vararg.arg] = self.fresh(self.typing.get(a.vararg.arg,
                                                           c.params[a.vararg.arg]),
                                           a.vararg.arg, st, inp=True)
        if a.kwarg is not None:
            env[a.kwarg.arg] = self.fresh(self.typing.get(a.kwarg.arg, c.params[a.kwarg.arg]),
                                          a.kwarg.arg, st, inp=True)
        for n, v in c.env.items():
            env[n] = v if isinstance(v, V) else self.fresh(v, n, st, inp=True)
        st.env = env
        return st

    def verify_function(self, qualname, contract=None):
        """Symbolically executes the real function and emits its obligations."""
        mod, cls, node = self.src.find(qualname)
        c = contract or self.reg.contracts.get(qualname)
        if c is None:
            raise EngineError('no contract for %s' % qualname)
        self.cur_func = qualname
        self.cur_contract = c
        self.cur_is_async = isinstance(node, ast.AsyncFunctionDef)
        self._cur_node = node
        self.number_loops(node)
        self._loops_done = {}
        self._in_cut = set()
        self.check_hits = set()
        n0 = len(self.obls)
        union = [(n, t) for n, t in c.params.items() if isinstance(t, list)]
        total = 0
        for combo in itertools.product(*[t for _, t in union]):
            self.typing = {n: t for (n, _), t in zip(union, combo)}
            self.case_tag = ','.join('%s:%s' % (n, t.kind) for (n, _), t in zip(union, combo))
            total += self._verify_case(qualname, c, mod, node)
        if self.shard is None:
            for pat in [g[0] for g in c.ghost_before_] + [g[0] for g in c.cuts_]:
                if pat not in self.check_hits:
                    raise EngineError('contract drift: no statement of %s matches the ghost '
                                      'program point %r' % (qualname, pat))
            for pat, _ in c.abstract_:
                if ('abstract', pat) not in self.check_hits:
                    raise EngineError('contract drift: no statement of %s matches the abstract '
                                      'region %r' % (qualname, pat))
            for pat, cl in c.checks_:
                if pat not in self.check_hits:
                    raise EngineError('contract drift: no statement of %s matches the program '
                                      'point %r of check %s' % (qualname, pat, cl.label))
        self.cur_func = None
        self.cur_contract = None
        return self.obls[n0:], total

    def _verify_case(self, qualname, c, mod, node):
        st = self.initial_state(c, node, mod.name)
        if self.case_tag:
            st.trace = st.trace + (self.case_tag,)
        penv = dict(st.env)
        for cl in c.requires_:
            st = self.add_all(st, [self.spec_bool(cl.src, st, penv)])
            if st is None:
                raise EngineError('precondition of %s is unsatisfiable (%s)'
                                  % (qualname, cl.label))
        for src in c.entry_assume:
            st.pc.append(self.spec_bool(src, st, penv))
        pre = st.copy()
        st.pre = pre
        st.entry_env = penv
        st.writes = set()
        self.cur_pre = pre
        self.cur_penv = penv
        for g, src in c.ghost_entry_:
            if g not in self.reg.ghosts:        # a ghost local (like ghost_before's)
                st.env = dict(st.env)
                st.env[g] = self.spec(src, st, penv)
                continue
            st.ghost[g] = self.coerce(self.spec(src, st, penv), self.reg.ghosts[g])
            self._wrote(st, ('ghost', g))
        # vacuity: the precondition must be satisfiable; a canary must be refutable
        self.oblige(st, 'canary', 'pre-sat', z3.BoolVal(False), props=c.props, line=node.lineno,
                    note='must be REFUTED: precondition satisfiable')
        npaths = 0
        for s1, out in self.ex_block(node.body, st):
            if self.shard is not None and self.shard[0] != 0 and not s1.sharded:
                continue         # short paths are handled by shard 0 only
            npaths += 1
            self.stats['paths'] += 1
            if out is not None and out[0] in ('break', 'continue'):
                raise EngineError('break/continue escaped %s' % qualname)
            if out is None or out[0] == 'ret':
                res = VNONE if out is None else out[1]
                self.exit_normal(s1, c, penv, pre, res, node)
            else:
                self.exit_raise(s1, c, penv, pre, out[1], node)
        if npaths == 0 and self.shard is None:
            raise EngineError('no feasible path through %s' % qualname)
        return npaths

    def exit_normal(self, st, c, penv, pre, res, node):
        line = node.lineno
        for rc in c.raises_:
            if rc.exact:
                w = self.spec_bool(rc.when, pre, penv, goal=True, neg=True)
                self.oblige(st, 'no-raise', rc.label, w, props=rc.props, line=line,
                            note='normal return although the contract says %s is raised'
                                 % rc.exc)
        if c.ret_cases is not None:
            match = None
            if res.ty.kind == 'any':
                res = self.narrow(st, res)
            for lab, guard, ty in c.ret_cases:
                if ty.kind == res.ty.kind or (ty.kind == 'list' and res.ty.kind == 'list'):
                    try:
                        r2 = res if ty.kind == 'rec' else self.coerce(res, ty)
                    except (EngineError, TypeError):
                        continue
                    match = (lab, guard, r2)
                    break
            if match is None:
                self.oblige(st, 'post', 'result-type', z3.BoolVal(False), props=c.props,
                            line=line, note='result of type %r fits no declared case' % (res.ty,))
                return
            lab, guard, res = match
            self.oblige(st, 'post', 'result-case:' + lab,
                        self.spec_bool(guard, pre, penv, goal=True), props=c.props, line=line)
        elif c.ret is not None and (callable(c.ret) or c.ret.kind not in ('rec',)):
            ret = c.ret({n: v.ty for n, v in penv.items() if isinstance(v, V)}) \
                if callable(c.ret) else c.ret
            if res.ty != ret:
                try:
                    res = self.coerce(res, ret)
                except EngineError:
                    if res.ty.kind == 'none' and ret.kind == 'any':
                        res = V(ANY, PV.pnone)
        for cl in c.ensures_:
            hints = [self.spec_bool(h, st, penv, result=res, pre=pre) for h in cl.hints]
            g = self.spec_bool(cl.src, st, penv, result=res, pre=pre, goal=True)
            wits = []
            for w in cl.witnesses:
                try:
                    wits.append(tuple(self.spec(x, st, dict(st.env), modname=self.modname(st)).t
                                      for x in ((w,) if isinstance(w, str) else w)))
                except (EngineError, KeyError):
                    pass
            self.oblige(st, 'post', cl.label, g, props=cl.props, line=line, hints=hints,
                        witnesses=wits)
        self.frame_obligations(st, c, penv, pre, line)

    def exit_raise(self, st, c, penv, pre, r, node):
        matched = [rc for rc in c.raises_ if exc_is_sub(r.cls, rc.exc)]
        if not matched:
            self.oblige(st, 'unexpected-exception', r.cls, z3.BoolVal(False), props=c.props,
                        line=r.line, note='%s escapes; the contract has no raises clause for it'
                        % r.cls)
            return
        ws = [self.spec_bool(rc.when, pre, penv, goal=True) for rc in matched]
        self.oblige(st, 'raises', r.cls, z3.Or(*ws), props=matched[0].props, line=r.line,
                    note='%s raised outside the condition stated by the contract' % r.cls)
        for rc, w in zip(matched, ws):
            for cl in rc.ensures:
                g = z3.Implies(w, self.spec_bool(cl.src, st, penv, pre=pre, goal=True))
                self.oblige(st, 'raises-post', '%s:%s' % (rc.label, cl.label), g,
                            props=cl.props, line=r.line)
        self.frame_obligations(st, c, penv, pre, r.line)

    def frame_obligations(self, st, c, penv, pre, line):
        allowed_any = set()
        allowed_obj = {}
        for loc in c.modifies_:
            if loc.startswith('ghost.'):
                allowed_any.add(('ghost', loc[6:]))
                continue
            if loc.startswith('new '):
                continue        # fresh objects are outside every frame anyway
            base, field = loc.rsplit('.', 1)
            if base in self.reg.schemas:
                fty = self.reg.field_ty(base, field)
                for key, _ in self.field_keys((self.reg.root_of(base), field), fty):
                    allowed_any.add(key)
            else:
                obj = self.spec(base, pre, penv)
                fty = self.reg.field_ty(obj.ty.args[0], field)
                for key, _ in self.field_keys((self.reg.root_of(obj.ty.args[0]), field), fty):
                    allowed_obj.setdefault(key, []).append(obj.t)
        for key in sorted(st.writes, key=str):
            if key in allowed_any:
                continue
            if key[0] == 'ghost':
                g0 = pre.ghost[key[1]]
                g1 = st.ghost[key[1]]
                self.oblige(st, 'frame', 'ghost.' + key[1], g0.t == g1.t, props=c.props,
                            line=line)
                continue
            new = st.heap[key]
            old = pre.heap.get(key)
            if old is None:
                old = z3.Const('H_%s_%s' % key[:2] + ('_' + key[2] if len(key) > 2 else ''),
                               new.sort())
            tgt = old
            for r in allowed_obj.get(key, []):
                tgt = z3.Store(tgt, r, z3.Select(new, r))
            # fresh objects (allocated on this path) are outside every frame
            a0 = pre.ghost.get('$alloc')
            k = z3.Int('frame_k')
            lim = a0.t
            goal = z3.ForAll([k], z3.Implies(k <= lim, z3.Select(new, k) == z3.Select(tgt, k)))
            self.oblige(st, 'frame', '.'.join(key[1:]), goal, props=c.props, line=line)
