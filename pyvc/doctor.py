"""setup_cmd: checks that the back ends and the sidecar files load. Builds nothing."""
import os, shutil, subprocess, sys
ROOT = os.path.dirname(os.path.dirname(os.path.abspath(__file__)))
sys.path.insert(0, ROOT)
ok = True
try:
    import z3
    print('z3', z3.get_version_string())
except Exception as e:
    print('z3 python module missing', e); ok = False
for tool in ('/usr/bin/cvc5', 'z3-new', '/venv/bin/python'):
    if shutil.which(tool) is None:
        print('missing', tool); ok = False
try:
    import contracts  # noqa
    from pyvc.contract import REG
    print('contracts: %d functions, %d lemmas, %d schemas' % (len(REG.contracts), len(REG.lemmas), len(REG.schemas)))
except Exception as e:
    print('sidecar contracts failed to load:', e); ok = False
sys.exit(0 if ok else 1)
