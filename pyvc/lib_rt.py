"""Library contracts (assumed) for the run-time environment of the servers and clients:
queues, application handlers, the WSGI gateway callables, loggers, background tasks, clocks.
Ghost state these contracts maintain is declared in contracts/schemas.py (DESIGN 3.1)."""
import z3

from .values import *  # noqa
from . import core
from . import lib
from .lib import R, LIBM, LIB, CLASS_METHODS, OPAQUE_CALL, libm, lib as libfn

# ---- datatypes for ghost logs ------------------------------------------------------------------
EV = z3.Datatype('EV')
EV.declare('mkev', ('ev_h', z3.IntSort()), ('ev_n', z3.IntSort()), ('ev_a0', PV), ('ev_a1', PV))
EV = EV.create()
EV_T = Ty('ev')
SP = z3.Datatype('SP')
SP.declare('mksp', ('sp_name', z3.StringSort()), ('sp_obj', z3.IntSort()))
SP = SP.create()
SP_T = Ty('sp')

EXTRA_SORTS['ev'] = EV
EXTRA_SORTS['sp'] = SP


# ---- loggers: argument expressions were already evaluated; the call has no effect -------------
def _log(eng, st, recv, args, kwargs, line):
    yield st, VNONE


for _m in ('info', 'warning', 'error', 'exception', 'debug', 'critical'):
    LIBM[('opaque:Logger', _m)] = _log


# ---- queues --------------------------------------------------------------------------------------
# View: items = FIFO content (packet references, 0 = the None sentinel), unf = unfinished count;
# ghost accepted / taken = every packet ever put / removed, in order (DESIGN 3.1, I4).
QITEM = Ref('Packet', True)
QSEQ = z3.SeqSort(z3.IntSort())


def _q_fields(eng, st, q):
    return eng.heap_load(st, q, 'items'), eng.heap_load(st, q, 'unf')


def _as_item(eng, x, line):
    if x.ty.kind == 'none':
        return z3.IntVal(0)
    if x.ty.kind == 'ref':
        return x.t
    raise core.EngineError('queue.put of %r at line %d' % (x.ty, line))


def _q_put(eng, st, recv, args, kwargs, line):
    it = _as_item(eng, args[0], line)
    items, unf = _q_fields(eng, st, recv)
    s2 = st.copy()
    eng.heap_store(s2, recv, 'items', V(List(QITEM), z3.Concat(items.t, z3.Unit(it))))
    eng.heap_store(s2, recv, 'unf', V(INT, unf.t + 1))
    acc = eng.heap_load(s2, recv, 'accepted')
    eng.heap_store(s2, recv, 'accepted', V(List(Ref('Packet')), z3.If(
        it == 0, acc.t, z3.Concat(acc.t, z3.Unit(it)))))
    pn = eng.heap_load(s2, recv, 'put_none')
    eng.heap_store(s2, recv, 'put_none', V(INT, z3.If(it == 0, pn.t + 1, pn.t)))
    yield s2, VNONE


def _q_take_head(eng, st, recv, items):
    """Removes the head; appends it to the ghost `taken` log when it is a packet."""
    head = items.t[0]
    eng.heap_store(st, recv, 'items',
                   V(List(QITEM), z3.SubSeq(items.t, 1, z3.Length(items.t) - 1)))
    taken = eng.heap_load(st, recv, 'taken')
    eng.heap_store(st, recv, 'taken', V(List(Ref('Packet')), z3.If(
        head == 0, taken.t, z3.Concat(taken.t, z3.Unit(head)))))
    tn = eng.heap_load(st, recv, 'taken_none')
    eng.heap_store(st, recv, 'taken_none', V(INT, z3.If(head == 0, tn.t + 1, tn.t)))
    c = eng.cur_contract
    if c is not None and getattr(c, 'queue_rely_', None) and not st.spec:
        src, reason = c.queue_rely_
        env = dict(st.env)
        env['x'] = V(QITEM, head)
        st.pc.append(eng.spec_bool(src, st, env))
        note = 'rely (queue items of %s): %s - %s' % (eng.cur_func, src, reason)
        if note not in eng.dropped:
            eng.dropped.append(note)
    return V(QITEM, head)


nonnone = z3.Function('seq_nonzero', QSEQ, QSEQ)


def lib_nonnone(eng, st, seq):
    """The subsequence of non-None items (uninterpreted; axioms instantiated at use)."""
    r = nonnone(seq)
    eng.fact(st, z3.Length(r) <= z3.Length(seq))
    eng.fact(st, z3.Implies(z3.Length(seq) == 0, z3.Length(r) == 0))
    return r


def _q_get(eng, st, recv, args, kwargs, line):
    if eng.cur_is_async and not args and not kwargs:
        # asyncio.Queue.get() returns a coroutine: it runs when awaited (no time-out) or under
        # asyncio.wait_for (time-out -> TimeoutError)
        def run(eng2, st2, timeout, line2):
            kw = {} if timeout is None else {'timeout': timeout}
            for s3, r in _q_get_blocking(eng2, st2, recv, kw, line2):
                if isinstance(r, core.Raise) and r.cls == 'QueueEmptyLib':
                    r = R('TimeoutError', line2)
                yield s3, r
        yield st, V(FN, ('corolib', run))
        return
    yield from _q_get_blocking(eng, st, recv, dict(kwargs, **({'block': args[0]} if args else {})),
                               line)


def _q_get_blocking(eng, st, recv, kwargs, line):
    args = []
    block = kwargs.get('block', args[0] if args else vbool(True))
    timeout = kwargs.get('timeout', args[1] if len(args) > 1 else VNONE)
    blocking = z3.is_true(z3.simplify(truth(block)))
    items, unf = _q_fields(eng, st, recv)
    s0 = st.copy()
    if blocking:
        # a blocking get is a yield point: other agents may have appended to the queue before
        # it returns (producers only: a single consumer per queue at a time is assumed)
        extra = z3.Const(eng.name('q_arrived'), QSEQ)
        eng.inputs[str(extra)] = extra
        items = V(List(QITEM), z3.Concat(items.t, extra))
        eng.heap_store(s0, recv, 'items', items)
        acc = eng.heap_load(s0, recv, 'accepted')
        eng.heap_store(s0, recv, 'accepted',
                       V(List(Ref('Packet')), z3.Concat(acc.t, lib_nonnone(eng, s0, extra))))
        eng.heap_store(s0, recv, 'unf', V(INT, unf.t + z3.Length(extra)))
        k = z3.Int(eng.name('k!arr'))
        eng.fact(s0, z3.ForAll([k], z3.Implies(z3.And(k >= 0, k < z3.Length(extra)),
                                               extra[k] >= 0)))
        advance_clock(eng, s0, timeout)
    for s1, empty in eng.fork(s0, z3.Length(items.t) == 0):
        if empty:
            if blocking and timeout.ty.kind == 'none':
                continue          # blocks until an item arrives: the empty case never returns
            yield s1, R('QueueEmptyLib', line)
        else:
            yield s1, _q_take_head(eng, s1, recv, items)


def _q_get_nowait(eng, st, recv, args, kwargs, line):
    yield from _q_get(eng, st, recv, [], {'block': vbool(False)}, line)


def _q_task_done(eng, st, recv, args, kwargs, line):
    items, unf = _q_fields(eng, st, recv)
    for s1, ok in eng.fork(st, unf.t > 0):
        if ok:
            eng.heap_store(s1, recv, 'unf', V(INT, unf.t - 1))
            yield s1, VNONE
        else:
            yield s1, R('ValueError', line)


def _q_join(eng, st, recv, args, kwargs, line):
    items, unf = _q_fields(eng, st, recv)
    # bounded time only if nothing is unfinished: otherwise some other agent must drain the queue
    eng.oblige(st, 'bounded-block', 'queue.join', unf.t == 0, props=['C15'], line=line,
               note='queue.join() with unfinished tasks blocks until another agent drains the '
                    'queue; nothing guarantees such an agent exists')
    # join() returns when every item has been taken and marked done by the consumers
    s2 = st.copy()
    taken = eng.heap_load(s2, recv, 'taken')
    eng.heap_store(s2, recv, 'taken',
                   V(List(Ref('Packet')), z3.Concat(taken.t, lib_nonnone(eng, s2, items.t))))
    eng.heap_store(s2, recv, 'items', V(List(QITEM), z3.Empty(QSEQ)))
    eng.heap_store(s2, recv, 'unf', vint(0))
    advance_clock(eng, s2, None)
    yield s2, VNONE


for _n, _f in (('put', _q_put), ('put_nowait', _q_put), ('get', _q_get),
               ('get_nowait', _q_get_nowait), ('task_done', _q_task_done), ('join', _q_join)):
    CLASS_METHODS[('Queue', _n)] = _f


def _new_queue(eng, st, f, args, kwargs, line):
    s2 = st.copy()
    q = eng.alloc(s2, 'Queue')
    e = z3.Empty(QSEQ)
    eng.heap_store(s2, q, 'items', V(List(QITEM), e))
    eng.heap_store(s2, q, 'accepted', V(List(Ref('Packet')), e))
    eng.heap_store(s2, q, 'taken', V(List(Ref('Packet')), e))
    eng.heap_store(s2, q, 'unf', vint(0))
    eng.heap_store(s2, q, 'put_none', vint(0))
    eng.heap_store(s2, q, 'taken_none', vint(0))
    yield s2, q


OPAQUE_CALL['QueueClass'] = _new_queue


@libfn('asyncio.Queue')
def _asyncio_queue(eng, st, args, kwargs, line):
    yield from _new_queue(eng, st, None, args, kwargs, line)


# ---- clock -----------------------------------------------------------------------------------------
def advance_clock(eng, st, dt):
    """A yield point: the ghost clock does not go backwards; a timed wait advances it by at most
    its time-out."""
    if 'now' not in st.ghost:
        return
    now = st.ghost['now']
    n2 = z3.Real(eng.name('now'))
    st.pc.append(n2 >= now.t)
    if dt is not None and dt.ty.kind in ('int', 'real'):
        st.pc.append(n2 <= now.t + eng.coerce(dt, REAL).t)
    st.ghost['now'] = V(REAL, n2)
    eng._wrote(st, ('ghost', 'now'))


def _sleep(eng, st, f, args, kwargs, line):
    s2 = st.copy()
    if 'now' in s2.ghost and args:
        now = s2.ghost['now']
        n2 = z3.Real(eng.name('now'))
        s2.pc.append(n2 >= now.t + eng.coerce(args[0], REAL).t)
        if getattr(eng, 'ideal_timers', True):
            s2.pc.append(n2 == now.t + eng.coerce(args[0], REAL).t)
        s2.ghost['now'] = V(REAL, n2)
        eng._wrote(s2, ('ghost', 'now'))
    yield s2, VNONE


OPAQUE_CALL['SleepFn'] = _sleep


# ---- threading.Event / asyncio.Event (driver objects) --------------------------------------------
def _new_event(eng, st, f, args, kwargs, line):
    s2 = st.copy()
    e = z3.Int(eng.name('event'))
    s2.pc.append(e >= 1)
    yield s2, V(Opaque('Event'), e)


OPAQUE_CALL['EventClass'] = _new_event


def _ev_is_set(eng, st, recv, args, kwargs, line):
    b = z3.Bool(eng.name('is_set'))
    eng.inputs[str(b)] = b
    yield st, vbool(b)


def _ev_wait(eng, st, recv, args, kwargs, line):
    """Event.wait(timeout): True (the event was set, within the time-out) or False after
    exactly the time-out (ideal timers). The requested time-out is added to the ghost `slept`
    (total sleep requested by the monitor) when that ghost is tracked."""
    t = kwargs.get('timeout') or (args[0] if args else None)
    if eng.cur_is_async and t is None:
        # asyncio.Event.wait() is a coroutine: awaited bare it returns True once the event is
        # set; under asyncio.wait_for it returns True in time or TimeoutError is raised
        def run(eng2, st2, timeout, line2):
            kw = {} if timeout is None else {'timeout': timeout}
            for s3, r in _ev_wait_sync(eng2, st2, recv, (), kw, line2):
                b3 = z3.simplify(r.t)
                sa = eng2.assume(s3, r.t)
                if sa is not None:
                    yield sa, vbool(True)
                if timeout is not None:
                    sb = eng2.assume(s3, z3.Not(r.t))
                    if sb is not None:
                        yield sb, R('TimeoutError', line2)
        yield st, V(FN, ('corolib', run))
        return
    yield from _ev_wait_sync(eng, st, recv, args, kwargs, line)


def _ev_wait_sync(eng, st, recv, args, kwargs, line):
    t = kwargs.get('timeout') or (args[0] if args else None)
    s2 = st.copy()
    b = z3.Bool(eng.name('ev_set'))
    eng.inputs[str(b)] = b
    if t is not None and 'now' in s2.ghost:
        dt = eng.coerce(t, REAL).t
        now = s2.ghost['now']
        n2 = z3.Real(eng.name('now'))
        s2.pc.append(n2 >= now.t)
        s2.pc.append(n2 <= now.t + dt)
        s2.pc.append(z3.Implies(z3.Not(b), n2 == now.t + dt))
        s2.ghost['now'] = V(REAL, n2)
        eng._wrote(s2, ('ghost', 'now'))
        if 'slept' in s2.ghost:
            s2.ghost['slept'] = V(REAL, s2.ghost['slept'].t + dt)
            eng._wrote(s2, ('ghost', 'slept'))
    else:
        advance_clock(eng, s2, None)
    yield s2, vbool(b)


@libfn('asyncio.Event')
def _asyncio_event(eng, st, args, kwargs, line):
    yield from _new_event(eng, st, None, args, kwargs, line)


@libfn('asyncio.get_running_loop')
def _running_loop(eng, st, args, kwargs, line):
    yield st, eng.fresh(Opaque('Loop'), 'loop', st)


LIBM[('opaque:Loop', 'is_closed')] = _ev_is_set       # an unknown bool
LIBM[('opaque:Event', 'is_set')] = _ev_is_set
LIBM[('opaque:Event', 'wait')] = _ev_wait


@libfn('asyncio.sleep')
def _asleep(eng, st, args, kwargs, line):
    yield from _sleep(eng, st, None, args, kwargs, line)


_dict_ids = {}


def _pv(v):
    """Boxed view of a value; dictionaries are passed to handlers by identity (abstract)."""
    if v.ty.kind == 'none':
        return PV.pnone
    if v.ty.kind == 'dict':
        key = str(v.t[0].sort())
        if key not in _dict_ids:
            _dict_ids[key] = z3.Function('dict_identity_%d' % len(_dict_ids), v.t[0].sort(),
                                         z3.IntSort())
        return PV.po(-1 - _dict_ids[key](v.t[0]))
    return box(v)



# ---- application handlers ---------------------------------------------------------------------
def _call_handler(eng, st, f, args, kwargs, line):
    """h(*args). If the handler's signature does not accept len(args) positional arguments the
    call raises TypeError and the body does not run. Otherwise the invocation is appended to the
    ghost `events` log and the body returns an arbitrary value or raises an arbitrary exception
    (TypeError kept apart: the code inspects it). Sequential model: the handler body does not
    itself change server state (DESIGN 1.6 / evidence assumptions)."""
    n = len(args)
    s0 = eng.assume(st, z3.Not(accepts(f.t, z3.IntVal(n))))
    if s0 is not None:
        yield s0, R('TypeError', line)
    s2 = eng.assume(st, accepts(f.t, z3.IntVal(n)))
    if s2 is None:
        return
    a = [PV.pnone, PV.pnone]
    for i, x in enumerate(args[:2]):
        a[i] = _pv(x)
    ev = EV.mkev(f.t, z3.IntVal(n), a[0], a[1])
    events = s2.ghost['events']
    s2.ghost['events'] = V(List(EV_T), z3.Concat(events.t, z3.Unit(ev)))
    eng._wrote(s2, ('ghost', 'events'))
    advance_clock(eng, s2, None)
    res = z3.Const(eng.name('handler_result'), PV)
    eng.inputs[str(res)] = res
    s5 = s2.copy()
    hr = s5.ghost['hresults']
    s5.ghost['hresults'] = V(List(ANY), z3.Concat(hr.t, z3.Unit(res)))
    eng._wrote(s5, ('ghost', 'hresults'))
    yield s5, V(ANY, res)
    yield s2.copy(), R('TypeError', line)
    yield s2.copy(), R('AnyException', line)


OPAQUE_CALL['Handler'] = _call_handler


@libfn('asyncio.iscoroutinefunction')
def _iscoro(eng, st, args, kwargs, line):
    f = args[0]
    if f.ty.kind == 'opaque':
        yield st, vbool(z3.Function('is_coroutine_function', z3.IntSort(), z3.BoolSort())(f.t))
    else:
        yield st, vbool(False)


# ---- WSGI gateway ---------------------------------------------------------------------------------
def _start_response(eng, st, f, args, kwargs, line):
    status, headers = args[0], args[1]
    if status.ty.kind != 'str':
        raise core.EngineError('start_response status is not a str at line %d' % line)
    log = st.ghost['sr_log']
    eng.oblige(st, 'pre@callsite', 'start_response:once', z3.Length(log.t) == 0,
               props=['C15'], line=line, note='start_response called more than once')
    hs = eng.coerce(headers, List(SS_T)) if headers.ty.kind == 'list' else None
    if hs is None:
        raise core.EngineError('start_response headers are not a list of pairs at line %d' % line)
    s2 = st.copy()
    s2.ghost['sr_log'] = V(List(STR), z3.Concat(log.t, z3.Unit(status.t)))
    s2.ghost['sr_headers'] = hs
    eng._wrote(s2, ('ghost', 'sr_log'))
    eng._wrote(s2, ('ghost', 'sr_headers'))
    yield s2, VNONE


OPAQUE_CALL['StartResponse'] = _start_response


def _make_response(eng, st, f, args, kwargs, line):
    """async driver's make_response(status, headers, body, environ): builds the framework's
    response object; recorded in the same ghost log as a WSGI start_response call."""
    for s2, _ in _start_response(eng, st, f, args[:2], {}, line):
        yield s2, eng.fresh(Opaque('HttpResponse'), 'http_response', s2)


OPAQUE_CALL['MakeResponse'] = _make_response


def _input_read(eng, st, recv, args, kwargs, line):
    n = args[0] if args else vint(-1)
    body = z3.String(eng.name('body'))
    eng.inputs[str(body)] = body
    s2 = st.copy()
    s2.pc.append(z3.Implies(n.t >= 0, z3.Length(body) <= n.t))
    reads = s2.ghost['reads']
    s2.ghost['reads'] = V(List(INT), z3.Concat(reads.t, z3.Unit(n.t)))
    eng._wrote(s2, ('ghost', 'reads'))
    if 'bodies' in s2.ghost:
        s2.ghost['bodies'] = V(List(BYTES), z3.Concat(s2.ghost['bodies'].t, z3.Unit(body)))
        eng._wrote(s2, ('ghost', 'bodies'))
    yield s2, V(BYTES, body)


LIBM[('opaque:Input', 'read')] = _input_read


# ---- background tasks --------------------------------------------------------------------------------
def spawn_record(eng, st, name, obj):
    sp = SP.mksp(z3.StringVal(name), obj)
    cur = st.ghost['spawned']
    st.ghost['spawned'] = V(List(SP_T), z3.Concat(cur.t, z3.Unit(sp)))
    eng._wrote(st, ('ghost', 'spawned'))


def target_name(eng, target):
    """(name, object id term) of a spawn target."""
    d = target.t
    if target.ty.kind == 'fn' and d[0] == 'repo':
        recv = d[3]
        return d[2].split('.')[-1], (recv.t if recv is not None else z3.IntVal(0))
    if target.ty.kind == 'fn' and d[0] == 'closure':
        return d[1].name, z3.IntVal(0)
    if target.ty.kind == 'fn' and d[0] == 'coro':
        return target_name(eng, V(FN, d[1]))
    if target.ty.kind == 'opaque' and target.ty.args[0] == 'Handler':
        return 'handler', target.t
    raise core.EngineError('unsupported spawn target %r' % (d[0],))


@libfn('asyncio.ensure_future')
def _ensure_future(eng, st, args, kwargs, line):
    name, obj = target_name(eng, args[0])
    s2 = st.copy()
    spawn_record(eng, s2, name, obj)
    t = eng.fresh(Opaque('Task'), 'task', s2)
    s2.notes = s2.notes + (('task', t.t, args[0]),)
    yield s2, t


LIB['asyncio.create_task'] = _ensure_future


def _task_join(eng, st, recv, args, kwargs, line):
    s2 = st.copy()
    advance_clock(eng, s2, None)
    yield s2, VNONE


LIBM[('opaque:Task', 'join')] = _task_join
LIBM[('opaque:Task', 'add_done_callback')] = _log
LIBM[('opaque:Task', 'exception')] = _log
LIBM[('opaque:Set', 'add')] = _log
LIBM[('opaque:Set', 'discard')] = _log


# ---- spec-only accessors for ghost log entries ---------------------------------------------------
def _sp1(fn):
    def sp(eng, st, e):
        vs = [eng.spec(a, st, dict(st.env), modname=eng.modname(st)) for a in e.args]
        yield st, fn(eng, st, *vs)
    return sp


lib.SPECIAL['ev_handler'] = _sp1(lambda eng, st, e: V(Opaque('Handler'), EV.ev_h(e.t)))
lib.SPECIAL['ev_nargs'] = _sp1(lambda eng, st, e: V(INT, EV.ev_n(e.t)))
lib.SPECIAL['ev_arg0'] = _sp1(lambda eng, st, e: V(ANY, EV.ev_a0(e.t)))
lib.SPECIAL['ev_arg1'] = _sp1(lambda eng, st, e: V(ANY, EV.ev_a1(e.t)))
lib.SPECIAL['mk_event'] = _sp1(lambda eng, st, h, n, a0, a1: V(EV_T, EV.mkev(
    h.t, n.t, _pv(a0), _pv(a1))))
lib.SPECIAL['mk_task'] = _sp1(lambda eng, st, name, obj: V(SP_T, SP.mksp(name.t, obj.t)))
lib.SPECIAL['task_name'] = _sp1(lambda eng, st, t: vstr(SP.sp_name(t.t)))
accepts = z3.Function('handler_accepts', z3.IntSort(), z3.IntSort(), z3.BoolSort())
lib.SPECIAL['handler_accepts'] = _sp1(lambda eng, st, h, n: vbool(accepts(h.t, n.t)))


def _dict_del(eng, st, d, k):
    dom, mp = d.t
    k = eng.coerce(k, d.ty.args[0])
    return V(d.ty, (z3.Store(dom, k.t, False),
                    z3.Store(mp, k.t, eng.default_term(mp.sort().range()))))


lib.SPECIAL['dict_del'] = _sp1(_dict_del)


def _dict_set(eng, st, d, k, v):
    dom, mp = d.t
    k = eng.coerce(k, d.ty.args[0])
    vt = d.ty.args[1]
    v2 = eng.coerce(v, vt)
    return V(d.ty, (z3.Store(dom, k.t, True),
                    z3.Store(mp, k.t, box(v2) if vt.kind == 'any' else v2.t)))


lib.SPECIAL['dict_set'] = _sp1(_dict_set)


@libfn('rt.spawn')
def _rt_spawn(eng, st, args, kwargs, line):
    """server.start_background_task(target, *args): a new agent is started (ghost `spawned`);
    threaded drivers may run it at once (yield point)."""
    name, obj = target_name(eng, args[0])
    s2 = st.copy()
    spawn_record(eng, s2, name, obj)
    t = eng.fresh(Opaque('Task'), 'task', s2)
    yield s2, t


@libfn('asyncio.wait_for')
def _wait_for(eng, st, args, kwargs, line):
    """wait_for(aw, t): the result or exception of aw, or TimeoutError after t (assumed: nothing
    is lost on time-out)."""
    aw = args[0]
    timeout = args[1] if len(args) > 1 else kwargs.get('timeout', VNONE)
    if aw.ty.kind == 'fn' and aw.t[0] == 'corolib':
        yield from aw.t[1](eng, st, timeout if timeout.ty.kind != 'none' else None, line)
        return
    if aw.ty.kind == 'fn' and aw.t[0] == 'coro':
        # a repository coroutine under a time-out: its outcomes, or TimeoutError
        yield from eng.run_coro(st, aw, line)
        if timeout.ty.kind != 'none':
            s2 = st.copy()
            advance_clock(eng, s2, timeout)
            yield s2, R('TimeoutError', line)
        return
    if aw.ty.kind == 'opaque' and aw.ty.args[0] == 'Task':
        yield from await_task(eng, st, aw, timeout, line)
        return
    raise core.EngineError('asyncio.wait_for of %r at line %d' % (aw.ty, line))


def await_task(eng, st, task, timeout, line):
    """Waiting for a spawned task: if the task's coroutine is known (ensure_future of a closure in
    this function) its body runs here; otherwise it is a plain yield point."""
    for note in st.notes:
        if note[0] == 'task' and note[1].eq(task.t):
            target = note[2]
            if target.ty.kind == 'fn' and target.t[0] == 'coro':
                yield from eng.run_coro(st, target, line)
                if timeout is not None and timeout.ty.kind != 'none':
                    s2 = st.copy()
                    advance_clock(eng, s2, timeout)
                    yield s2, R('TimeoutError', line)
                return
    s2 = st.copy()
    advance_clock(eng, s2, None)
    yield s2, VNONE


# ---- WebSocket driver wrappers (assumed, DESIGN Appendix E) ---------------------------------------
FR = z3.Datatype('FR')
FR.declare('mkfr', ('fr_out', z3.BoolSort()), ('fr_data', PV))
FR = FR.create()
FR_T = Ty('fr')
EXTRA_SORTS['fr'] = FR
lib.SPECIAL['mk_frame'] = _sp1(lambda eng, st, out, d: V(FR_T, FR.mkfr(truth(out), _pv(d))))
lib.SPECIAL['frame_out'] = _sp1(lambda eng, st, f: vbool(FR.fr_out(f.t)))
lib.SPECIAL['frame_data'] = _sp1(lambda eng, st, f: V(ANY, FR.fr_data(f.t)))


def _ws_class(eng, st, f, args, kwargs, line):
    """async driver's WebSocket class: WS(handler, server) -> WSGI/ASGI callable"""
    s2 = st.copy()
    app = eng.fresh(Opaque('WSApp'), 'wsapp', s2)
    s2.notes = s2.notes + (('wsapp', app.t, args[0]),)
    yield s2, app


def _ws_app(eng, st, f, args, kwargs, line):
    """ws(environ, start_response): performs the handshake and calls the handler exactly once
    with the connection object; returns the handler's result."""
    for note in st.notes:
        if note[0] == 'wsapp' and note[1].eq(f.t):
            s2 = st.copy()
            ws = eng.fresh(Opaque('WS'), 'ws', s2)
            yield from eng.call(s2, note[2], [ws], {}, line, awaited=True)
            return
    raise core.EngineError('WebSocket application object of unknown origin at line %d' % line)


OPAQUE_CALL['WSClass'] = _ws_class
OPAQUE_CALL['WSApp'] = _ws_app


def _ws_log(eng, st, out, data):
    log = st.ghost['ws_log']
    st.ghost['ws_log'] = V(List(FR_T), z3.Concat(log.t, z3.Unit(FR.mkfr(z3.BoolVal(out), data))))
    eng._wrote(st, ('ghost', 'ws_log'))


def _ws_wait(eng, st, recv, args, kwargs, line):
    """next frame (text or bytes), None when the peer closed (threaded drivers), or an exception
    (time-out / broken connection; asyncio drivers raise OSError when closed)"""
    s2 = st.copy()
    advance_clock(eng, s2, None)
    d = z3.Const(eng.name('frame'), PV)
    eng.inputs[str(d)] = d
    s2.pc.append(z3.Or(PV.is_ps(d), PV.is_py(d), PV.is_pnone(d)))
    s3 = s2.copy()
    _ws_log(eng, s2, False, d)
    yield s2, V(ANY, d)
    yield s3, R('OSError', line)
    yield s3.copy(), R('AnyException', line)


def _ws_send(eng, st, recv, args, kwargs, line):
    s2 = st.copy()
    advance_clock(eng, s2, None)
    s3 = s2.copy()
    _ws_log(eng, s2, True, _pv(args[0]))
    s4 = s3.copy()
    yield s2, VNONE
    yield s3, R('OSError', line)
    yield s4, R('AnyException', line)


def _ws_close(eng, st, recv, args, kwargs, line):
    s2 = st.copy()
    advance_clock(eng, s2, None)
    yield s2, VNONE


def _ws_recv(eng, st, recv, args, kwargs, line):
    """websocket-client's WebSocket.recv(): next frame as str or bytes ('' after a close), or one
    of the library's exceptions (time-out, connection closed, OS error, anything else)."""
    s2 = st.copy()
    advance_clock(eng, s2, None)
    d = z3.Const(eng.name('frame'), PV)
    eng.inputs[str(d)] = d
    s2.pc.append(z3.Or(PV.is_ps(d), PV.is_py(d)))
    others = [s2.copy() for _ in range(4)]
    _ws_log(eng, s2, False, d)
    yield s2, V(ANY, d)
    for s3, exc in zip(others, ('WebSocketTimeoutException', 'WebSocketConnectionClosedException',
                                'OSError', 'AnyException')):
        yield s3, R(exc, line)


def _ws_receive(eng, st, recv, args, kwargs, line):
    """aiohttp ClientWebSocketResponse.receive(): a coroutine giving the next message object
    (attributes .data / .type), or raising (time-out under wait_for, server disconnected, other)."""
    def run(eng2, st2, timeout, line2):
        s2 = st2.copy()
        advance_clock(eng2, s2, timeout)
        m = z3.Int(eng2.name('ws_msg'))
        s2.pc.append(m >= 1)
        others = [s2.copy() for _ in range(3)]
        d = ws_msg_data(m)
        _ws_log(eng2, s2, False, d)
        yield s2, V(Opaque('WSMsg'), m)
        excs = ['ServerDisconnectedError', 'AnyException'] + (
            ['TimeoutError'] if timeout is not None else [])
        for s3, exc in zip(others, excs):
            yield s3, R(exc, line2)
    yield st, V(FN, ('corolib', run))


ws_msg_data = z3.Function('ws_msg_data', z3.IntSort(), PV)
LIBM[('opaque:WS', 'receive')] = _ws_receive
lib.OPAQUE_ATTR[('WSMsg', 'data')] = lambda eng, st, o: V(ANY, ws_msg_data(o.t))
LIBM[('opaque:WS', 'recv')] = _ws_recv
lib.OPAQUE_ATTR[('WS', 'connected')] = lambda eng, st, o: vbool(
    z3.Function('ws_connected', z3.IntSort(), z3.RealSort(), z3.BoolSort())(
        o.t, st.ghost['now'].t if 'now' in st.ghost else z3.RealVal(0)))
LIBM[('opaque:WS', 'wait')] = _ws_wait
LIBM[('opaque:WS', 'send')] = _ws_send
LIBM[('opaque:WS', 'close')] = _ws_close


compressed = z3.Function('compressed', z3.StringSort(), z3.StringSort(), z3.StringSort())
lib.SPECIAL['utf8_ok'] = _sp1(lambda eng, st, b: vbool(lib.utf8_ok(b.t)))
lib.SPECIAL['compressed'] = _sp1(lambda eng, st, kind, data: V(BYTES, compressed(kind.t, data.t)))


def sp_unchanged(eng, st, e):
    """unchanged('Class.field', ...): every object's field has its pre-state value."""
    conj = []
    for a in e.args:
        cls, field = a.value.split('.')
        fty = eng.reg.field_ty(cls, field)
        for key, sort in eng.field_keys((eng.reg.root_of(cls), field), fty):
            new = eng.heap_arr(st, key, sort)
            old = st.pre.heap.get(key)
            if old is None:
                old = eng.heap_arr(st.pre, key, sort)
            conj.append(new == old)
    yield st, vbool(z3.And(*conj) if conj else z3.BoolVal(True))


lib.SPECIAL['unchanged'] = sp_unchanged


def sp_all_values(eng, st, e):
    """all_values(d, lambda v: P(v)): P holds for every value of dict d (quantified over keys;
    instantiated by hand at the keys the path looks up)."""
    d = eng.spec(e.args[0], st, dict(st.env), modname=eng.modname(st))
    lam = e.args[1]
    kt, vt = d.ty.args[0], d.ty.args[1]
    k = z3.Const(eng.name('q_key'), sort_of(kt))
    env = dict(st.env)
    env['__parent__'] = st.env
    env[lam.args.args[0].arg] = V(vt, z3.Select(d.t[1], k))
    s2 = st.copy()
    s2.pc.append(z3.Select(d.t[0], k))
    saved = eng.undef
    eng.undef = []
    eng.bound_depth += 1
    try:
        body = truth(eng.spec(lam.body, s2, env, modname=eng.modname(st)))
        und = eng.undef
    finally:
        eng.undef = saved
        eng.bound_depth -= 1
    if und:
        body = z3.And(z3.Not(z3.Or(*und)), body)
    rng = [z3.Select(d.t[0], k)]
    t = z3.ForAll([k], z3.Implies(rng[0], body))
    eng.quants[t.get_id()] = (t, [k], rng, body)
    yield st, vbool(t)


lib.SPECIAL['all_values'] = sp_all_values


def sp_fresh_obj(eng, st, e):
    """fresh_obj(x): object x was allocated after the pre-state of the enclosing contract."""
    x = eng.spec(e.args[0], st, dict(st.env), modname=eng.modname(st))
    a0 = st.pre.ghost['$alloc'].t if st.pre is not None else st.ghost['$alloc'].t
    yield st, vbool(x.t > a0)


lib.SPECIAL['fresh_obj'] = sp_fresh_obj


# ---- middleware environment: the wrapped applications and the file system ---------------------------
def _route(eng, st, name):
    st.ghost['route'] = V(List(STR), z3.Concat(st.ghost['route'].t, z3.Unit(z3.StringVal(name))))
    eng._wrote(st, ('ghost', 'route'))


def _engine_handle_request(eng, st, recv, args, kwargs, line):
    s2 = st.copy()
    _route(eng, s2, 'engine')
    yield s2, V(Opaque('AppResult'), z3.Int(eng.name('engine_result')))


def _wsgi_app_call(eng, st, f, args, kwargs, line):
    s2 = st.copy()
    _route(eng, s2, 'app')
    yield s2, V(Opaque('AppResult'), z3.Int(eng.name('app_result')))


LIBM[('opaque:EngineApp', 'handle_request')] = _engine_handle_request
OPAQUE_CALL['WSGIApplication'] = _wsgi_app_call


# ---- the clients' HTTP transport (requests.Session / aiohttp; assumed) ---------------------------
resp_status = z3.Function('http_resp_status', z3.IntSort(), z3.IntSort())


@libfn('rt.http_request')
def _http_request(eng, st, args, kwargs, line):
    """Client._send_request(method, url, headers=, body=, timeout=): hands the request to the HTTP
    library (a blocking call bounded by `timeout`); the body of a POST is appended to the ghost
    `http_bodies`. Returns the response object, None (refused) or the error text."""
    s2 = st.copy()
    advance_clock(eng, s2, None)
    body = kwargs.get('body')
    if body is not None and body.ty.kind != 'none':
        if body.ty.kind not in ('str', 'bytes', 'any'):
            raise core.EngineError('HTTP body of type %r at line %d' % (body.ty, line))
        g = s2.ghost
        g['http_bodies'] = V(List(ANY), z3.Concat(g['http_bodies'].t, z3.Unit(box(body))))
        eng._wrote(s2, ('ghost', 'http_bodies'))
    r = z3.Int(eng.name('http_resp'))
    s2.pc.append(r >= 1)
    yield s2, V(Opaque('HttpResp'), r)
    yield s2.copy(), VNONE
    yield s2.copy(), vstr(z3.String(eng.name('http_error')))


lib.OPAQUE_ATTR[('HttpResp', 'status_code')] = lambda eng, st, o: V(INT, resp_status(o.t))
lib.OPAQUE_ATTR[('Http', 'closed')] = lambda eng, st, o: vbool(
    z3.Function('http_session_closed', z3.IntSort(), z3.IntSort(), z3.BoolSort())(
        o.t, st.ghost['$alloc'].t))        # aiohttp.ClientSession.closed (changes over time)


def _http_close(eng, st, recv, args, kwargs, line):
    s2 = st.copy()
    advance_clock(eng, s2, None)
    eng.havoc_alloc(s2)
    yield s2, VNONE


LIBM[('opaque:Http', 'close')] = _http_close
lib.OPAQUE_ATTR[('HttpResp', 'content')] = lambda eng, st, o: V(BYTES, z3.Function(
    'http_resp_content', z3.IntSort(), z3.StringSort())(o.t))
LIBM[('opaque:HttpResp', 'read')] = lambda eng, st, recv, args, kwargs, line: iter([(st, V(
    BYTES, z3.Function('http_resp_content', z3.IntSort(), z3.StringSort())(recv.t)))])   # aiohttp
def _resp_json(eng, st, recv, args, kwargs, line):
    """requests.Response.json(): the decoded body (any JSON value) or JSONDecodeError."""
    v = z3.Const(eng.name('resp_json'), PV)
    yield st, V(ANY, v)
    # requests raises JSONDecodeError; aiohttp's ClientResponse.json() is modelled as raising its
    # own ClientError family only (content-type mismatch) - assumption, aiohttp is not in reach
    yield st.copy(), R('ClientError' if eng.cur_is_async else 'JSONDecodeError', line)


LIBM[('opaque:HttpResp', 'json')] = _resp_json
lib.OPAQUE_ATTR[('HttpResp', 'status')] = lambda eng, st, o: V(INT, resp_status(o.t))     # aiohttp
LIBM[('opaque:WS', 'send_binary')] = lambda *a: _ws_send(*a)
LIBM[('opaque:WS', 'send_bytes')] = lambda *a: _ws_send(*a)       # aiohttp ClientWebSocketResponse
LIBM[('opaque:WS', 'send_str')] = lambda *a: _ws_send(*a)


# ---- ASGI server callables (assumed: receive() yields an event dict with a 'type'; send(msg)
# delivers msg; both are yield points) -------------------------------------------------------------
def _asgi_receive(eng, st, f, args, kwargs, line):
    s2 = st.copy()
    advance_clock(eng, s2, None)
    t = z3.String(eng.name('asgi_event'))
    eng.inputs[str(t)] = t
    yield s2, V(REC, {'type': vstr(t)})


def _asgi_send(eng, st, f, args, kwargs, line):
    """send(message): the message type is appended to the ghost `asgi_log`; the status of a
    response.start message to `asgi_status`; the value of its first header to `asgi_ctype`."""
    m = args[0]
    if m.ty.kind != 'rec' or 'type' not in m.t:
        raise core.EngineError('ASGI send of a non-literal message at line %d' % line)
    s2 = st.copy()
    advance_clock(eng, s2, None)
    g = s2.ghost
    g['asgi_log'] = V(List(STR), z3.Concat(g['asgi_log'].t, z3.Unit(m.t['type'].t)))
    eng._wrote(s2, ('ghost', 'asgi_log'))
    if 'status' in m.t:
        g['asgi_status'] = V(List(INT), z3.Concat(g['asgi_status'].t,
                                                  z3.Unit(eng.coerce(m.t['status'], INT).t)))
        eng._wrote(s2, ('ghost', 'asgi_status'))
    if 'headers' in m.t:
        h = m.t['headers']
        if h.ty.kind != 'pylist' or len(h.t) != 1 or h.t[0].ty.kind != 'tup':
            raise core.EngineError('ASGI headers of unexpected shape at line %d' % line)
        name, val = h.t[0].t
        g['asgi_ctype'] = V(List(BYTES), z3.Concat(
            g['asgi_ctype'].t, z3.Unit(name.t), z3.Unit(eng.coerce(val, BYTES).t)))
        eng._wrote(s2, ('ghost', 'asgi_ctype'))
    yield s2, VNONE


def _lifespan_callback(eng, st, f, args, kwargs, line):
    """on_startup / on_shutdown: arbitrary application code - returns or raises."""
    s2 = st.copy()
    advance_clock(eng, s2, None)
    g = s2.ghost
    g['callbacks'] = V(INT, g['callbacks'].t + 1)
    eng._wrote(s2, ('ghost', 'callbacks'))
    s3 = s2.copy()
    s3.ghost['cb_raised'] = V(INT, s3.ghost['cb_raised'].t + 1)
    eng._wrote(s3, ('ghost', 'cb_raised'))
    yield s2, VNONE
    yield s3, R('AnyException', line)


OPAQUE_CALL['AsgiReceive'] = _asgi_receive
OPAQUE_CALL['AsgiSend'] = _asgi_send
OPAQUE_CALL['LifespanCallback'] = _lifespan_callback


@libfn('open')
def _open(eng, st, args, kwargs, line):
    s2 = st.copy()
    s2.ghost['opened'] = V(List(STR), z3.Concat(s2.ghost['opened'].t, z3.Unit(args[0].t)))
    eng._wrote(s2, ('ghost', 'opened'))
    yield s2, V(Opaque('File'), z3.Int(eng.name('file')))


def _file_read(eng, st, recv, args, kwargs, line):
    yield st, V(BYTES, z3.String(eng.name('file_content')))


LIBM[('opaque:File', 'read')] = _file_read


def _clientlist_remove(eng, st, recv, args, kwargs, line):
    yield st, VNONE
    yield st.copy(), R('ValueError', line)


LIBM[('opaque:ClientList', 'remove')] = _clientlist_remove
LIBM[('opaque:ClientList', 'append')] = _log

url_scheme = z3.Function('url_scheme', z3.StringSort(), z3.StringSort())
url_netloc = z3.Function('url_netloc', z3.StringSort(), z3.StringSort())
url_query = z3.Function('url_query', z3.StringSort(), z3.StringSort())
url_path = z3.Function('url_path', z3.StringSort(), z3.StringSort())


@libfn('urllib.parse.urlparse')
def _urlparse(eng, st, args, kwargs, line):
    """urlparse(u): a record of the parts (functions of u; scheme lower-cased - assumed)."""
    u = args[0].t
    yield st, V(REC, {'scheme': vstr(url_scheme(u)), 'netloc': vstr(url_netloc(u)),
                      'path': vstr(url_path(u)), 'query': vstr(url_query(u))})
