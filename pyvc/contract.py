"""Sidecar contract language: registry and DSL objects.

Contracts are *data*: clauses are Python expression strings that the engine parses with `ast`
and evaluates with the same symbolic evaluator as the code under verification (spec mode).
"""
from .values import *  # noqa


class Clause:
    def __init__(self, label, src, props=None, hints=None, witnesses=None):
        self.witnesses = list(witnesses or [])   # spec expressions over the exit state's locals,
                                                 # offered as candidates for `exists` goals (a
                                                 # candidate that cannot be evaluated is skipped)
        self.label = label
        self.src = src
        self.props = list(props or [])
        self.hints = list(hints or [])     # spec expressions whose *value is assumed true* before
                                           # proving (lemma instances; each is itself a proved
                                           # lemma or a library axiom instance)


class RaiseClause:
    def __init__(self, exc, when, exact, ensures, props, label):
        self.exc = exc            # class name
        self.when = when          # spec expr over the pre-state
        self.exact = exact        # True: raised iff when;  False: may be raised only if when
        self.ensures = ensures    # list[Clause] holding on that exceptional exit
        self.props = list(props or [])
        self.label = label or exc


class LoopSpec:
    def __init__(self, ordinal, index=None, invariants=None, modifies=None, variant=None,
                 unroll=None, elem_ty=None, summarize=False, complete=False):
        self.complete = complete            # the loop never leaves through `break`: every element
                                            # is visited (obligation loop-runs-to-completion)
        self.elem_ty = elem_ty              # element type of a comprehension's result
        self.summarize = summarize          # modular cut: body/continuation explored once
        self.ordinal = ordinal
        self.index = index                  # name of ghost index for `for` loops
        self.invariants = invariants or []  # list[Clause]
        self.modifies = modifies or []      # local names and heap locations
        self.variant = variant
        self.unroll = unroll                # bounded stand-in


class Contract:
    def __init__(self, qualnames, props=None):
        self.qualnames = qualnames
        self.props = list(props or [])
        self.params = {}          # name -> Ty
        self.ret = None           # Ty of result or None (inferred)
        self.requires_ = []       # list[Clause]
        self.ensures_ = []        # list[Clause]
        self.raises_ = []         # list[RaiseClause]
        self.modifies_ = []       # list[str]
        self.loops = {}           # ordinal -> LoopSpec
        self.inline = False       # no contract: the body is inlined at call sites
        self.trusted = False      # contract assumed, body not verified (listed in trusted base)
        self.trusted_reason = ''
        self.abstract_calls = {}  # callee attr-name -> python fn(eng, st, args, kwargs) override
        self.notes = []
        self.env = {}             # extra names bound for the body (e.g. closures' captured types)
        self.ghost_at = []        # (predicate on ast node, python hook) ghost statements
        self.pure = False
        self.entry_assume = []    # spec exprs assumed at entry in addition to requires (typing)
        self.relies_ = []         # [(Clause, reason)] assumed at call sites only
        self.queue_rely_ = None   # (spec over x, reason): assumed of every item taken from a queue
        self.abstract_ = []       # (statement text prefix, reason): statements not modelled
        self.checks_ = []         # (statement text prefix, Clause): assertion before a statement
        self.ghost_before_ = []   # (statement text prefix, ghost local name, spec expr)
        self.cuts_ = []           # (statement text prefix, [Clause]): intermediate assertion +
                                  # generalisation point (the rest is explored once per shape)
        self.ghost_entry_ = []    # (ghost name, spec expr): ghost assignments at function entry
        self.ret_cases = None     # [(label, guard spec expr over the pre-state, Ty)]

    # -- DSL ----------------------------------------------------------------------------------
    def param(self, name, ty):
        self.params[name] = ty
        return self

    def returns(self, ty):
        self.ret = ty
        return self

    def abstract(self, stmt_prefix, reason):
        """A statement that is deliberately not modelled (listed in the evidence)."""
        self.abstract_.append((' '.join(stmt_prefix.split()), reason))
        return self

    def check_before(self, stmt_prefix, label, src, props=None):
        """Proof obligation at a program point: `src` must hold whenever a statement whose text
        starts with `stmt_prefix` is about to execute."""
        self.checks_.append((' '.join(stmt_prefix.split()),
                             Clause(label, src, props or self.props)))
        return self

    def cut(self, stmt_prefix, invariants, props=None):
        """Intermediate assertion before a statement where many paths join: every arriving path
        proves the invariants; the code from there on is verified once, from an arbitrary state
        satisfying the function's entry assumptions, its frame and these invariants."""
        self.cuts_.append((' '.join(stmt_prefix.split()),
                           [Clause(l, s, props or self.props) for l, s in invariants]))
        return self

    def ghost_before(self, stmt_prefix, name, src):
        """Ghost local: `name = <spec expr>` evaluated just before the matching statement."""
        self.ghost_before_.append((' '.join(stmt_prefix.split()), name, src))
        return self

    def ghost_entry(self, name, src):
        """Ghost statement executed at function entry: `name = <spec expr>`."""
        self.ghost_entry_.append((name, src))
        return self

    def returns_cases(self, *cases):
        """The result has one of several static types: (label, guard, Ty) each."""
        self.ret_cases = list(cases)
        return self

    def requires(self, src, label=None):
        self.requires_.append(Clause(label or 'pre%d' % len(self.requires_), src))
        return self

    def ensures(self, label, src, props=None, hints=None, witnesses=None):
        self.ensures_.append(Clause(label, src, props or self.props, hints, witnesses))
        return self

    def rely(self, label, src, reason):
        """A postcondition assumed at call sites but NOT proved of the body: an environment
        (rely) condition whose guarantee side is proved elsewhere (named in `reason`). Listed in
        the evidence under trusted_base."""
        self.relies_.append((Clause(label, src, self.props), reason))
        return self

    def queue_rely(self, src, reason):
        """Environment condition on every item this function takes from a queue (`x` = the item):
        assumed where the item is taken, NOT proved here; the guarantee side is proved at the
        producers' call sites (named in `reason`). Listed in the evidence under trusted_base."""
        self.queue_rely_ = (src, reason)
        return self

    def raises(self, exc, when, ensures=None, props=None, label=None):
        """`exc` is raised if and only if `when` (pre-state expression) holds."""
        ens = [Clause(l, s, props or self.props) for l, s in (ensures or [])]
        self.raises_.append(RaiseClause(exc, when, True, ens, props or self.props, label))
        return self

    def may_raise(self, exc, only_if='True', ensures=None, props=None, label=None):
        ens = [Clause(l, s, props or self.props) for l, s in (ensures or [])]
        self.raises_.append(RaiseClause(exc, only_if, False, ens, props or self.props, label))
        return self

    def modifies(self, *locs):
        self.modifies_.extend(locs)
        return self

    def loop(self, ordinal, index=None, invariants=None, modifies=None, variant=None,
             unroll=None, props=None, elem_ty=None, summarize=False, complete=False):
        invs = [Clause(l, s, props or self.props) for l, s in (invariants or [])]
        self.loops[ordinal] = LoopSpec(ordinal, index, invs, list(modifies or []), variant,
                                       unroll, elem_ty, summarize, complete)
        self.loops[ordinal].props = list(props or self.props)
        return self

    def note(self, text):
        self.notes.append(text)
        return self


class Schema:
    def __init__(self, name, module, base, fields, consts=None):
        self.name = name
        self.module = module
        self.base = base
        self.fields = fields
        self.consts = consts or {}


class Lemma:
    """A property-level lemma over spec functions only (no code)."""
    builder = None

    def __init__(self, name, props, variables, premises, goal, hints=None, note='',
                 lets=None, cases=None):
        self.lets = lets or {}       # name -> spec expr, evaluated once (per case)
        self.cases = cases or []     # list of spec exprs: exhaustive case split (checked)
        self.name = name
        self.props = props
        self.variables = variables   # name -> Ty
        self.premises = premises     # list of spec exprs
        self.goal = goal             # spec expr
        self.hints = hints or []
        self.note = note


class Registry:
    def __init__(self):
        self.contracts = {}     # qualname -> Contract
        self.schemas = {}       # class name -> Schema
        self.lemmas = []        # list[Lemma]
        self.ghosts = {}        # ghost global name -> Ty
        self.libcontracts_used = set()

    def contract(self, *qualnames, props=None):
        c = Contract(list(qualnames), props)
        for q in qualnames:
            self.contracts[q] = c
        return c

    def schema(self, name, module=None, base=None, fields=None, consts=None):
        self.schemas[name] = Schema(name, module, base, fields or {}, consts)
        return self.schemas[name]

    def lemma(self, name, props, variables, premises, goal, hints=None, note='', lets=None,
              cases=None):
        l = Lemma(name, props, variables, premises, goal, hints, note, lets, cases)
        self.lemmas.append(l)
        return l

    def pylemma(self, name, props, builder, note=''):
        """A lemma built directly as z3 terms: builder(eng) -> [(label, premises, goal)]."""
        l = Lemma(name, props, {}, [], 'True', None, note)
        l.builder = builder
        self.lemmas.append(l)
        return l

    def ghost(self, name, ty):
        self.ghosts[name] = ty

    # -- schema queries -----------------------------------------------------------------------
    def root_of(self, cls):
        s = self.schemas[cls]
        while s.base:
            s = self.schemas[s.base]
        return s.name

    def field_ty(self, cls, field):
        s = self.schemas.get(cls)
        while s is not None:
            if field in s.fields:
                return s.fields[field]
            s = self.schemas.get(s.base) if s.base else None
        return None

    def all_fields(self, cls):
        out = {}
        chain = []
        s = self.schemas.get(cls)
        while s is not None:
            chain.append(s)
            s = self.schemas.get(s.base) if s.base else None
        for s in reversed(chain):
            out.update(s.fields)
        return out

    def is_subclass(self, cls, anc):
        s = self.schemas.get(cls)
        while s is not None:
            if s.name == anc:
                return True
            s = self.schemas.get(s.base) if s.base else None
        return False


REG = Registry()
