"""Front end: reads the *real* sources under /repo on every run (no cache across runs)."""
import ast
import hashlib
import os

REPO_SRC = os.environ.get('PYVC_REPO_SRC', '/repo/src/engineio')
SPEC_FILE = os.path.join(os.path.dirname(os.path.dirname(os.path.abspath(__file__))),
                         'contracts', 'spec.py')


class ClassInfo:
    def __init__(self, name, module, node):
        self.name = name
        self.module = module
        self.node = node
        self.bases = node.bases          # ast exprs
        self.consts = {}                 # name -> python constant
        self.methods = {}                # name -> FunctionDef
        self.classes = {}                # nested classes
        self.aliases = {}                # class attribute = module-level name
        for s in node.body:
            if isinstance(s, (ast.FunctionDef, ast.AsyncFunctionDef)):
                self.methods[s.name] = s
            elif isinstance(s, ast.ClassDef):
                self.classes[s.name] = ClassInfo(s.name, module, s)
            elif isinstance(s, ast.Assign):
                if isinstance(s.value, ast.Name):
                    for t in s.targets:
                        if isinstance(t, ast.Name):
                            self.aliases[t.id] = s.value.id
                    continue
                try:
                    val = ast.literal_eval(s.value)
                except Exception:
                    continue
                for t in s.targets:
                    if isinstance(t, ast.Name):
                        self.consts[t.id] = val


class ModInfo:
    def __init__(self, name, path):
        self.name = name
        self.path = path
        with open(path) as f:
            self.text = f.read()
        self.tree = ast.parse(self.text)
        self.consts = {}
        self.imports = {}      # local name -> ('repo', module) | ('lib', dotted) | ('repofn', module, name)
        self.classes = {}
        self.funcs = {}
        self.star = []         # from X import *
        self.exprs = {}        # name -> ast expr of other simple module-level assignments
        for s in self.tree.body:
            if isinstance(s, (ast.FunctionDef, ast.AsyncFunctionDef)):
                self.funcs[s.name] = s
            elif isinstance(s, ast.ClassDef):
                self.classes[s.name] = ClassInfo(s.name, name, s)
            elif isinstance(s, ast.Assign):
                self._assign(s)
            elif isinstance(s, ast.Import):
                self._import(s)
            elif isinstance(s, ast.ImportFrom):
                self._importfrom(s)
            elif isinstance(s, ast.Try):
                # optional dependency: try: import X / except ImportError: X = None
                for t in s.body:
                    if isinstance(t, ast.Import):
                        self._import(t)
                    elif isinstance(t, ast.ImportFrom):
                        self._importfrom(t)

    def _import(self, s):
        for a in s.names:
            self.imports[a.asname or a.name.split('.')[0]] = \
                ('lib', a.name if a.asname else a.name.split('.')[0])

    def _assign(self, s):
        try:
            val = ast.literal_eval(s.value)
        except Exception:
            for t in s.targets:
                if isinstance(t, ast.Name):
                    self.exprs[t.id] = s.value
            return
        for t in s.targets:
            if isinstance(t, ast.Name):
                self.consts[t.id] = val
            elif isinstance(t, ast.Tuple) and isinstance(val, tuple) and \
                    len(t.elts) == len(val):
                for e, v in zip(t.elts, val):
                    if isinstance(e, ast.Name):
                        self.consts[e.id] = v

    def _importfrom(self, s):
        mod = s.module or ''
        is_repo = s.level > 0 or mod == 'engineio' or mod.startswith('engineio.')
        for a in s.names:
            local = a.asname or a.name
            if a.name == '*':
                self.star.append(mod)
                continue
            if is_repo:
                base = mod[len('engineio'):].lstrip('.') if mod.startswith('engineio') else mod
                if base == '':
                    # from . import packet / from engineio import json
                    self.imports[local] = ('repo', a.name)
                else:
                    # from engineio.static_files import get_static_file / from .x import y
                    self.imports[local] = ('repoattr', base, a.name)
            else:
                self.imports[local] = ('lib', mod + '.' + a.name)


class Source:
    def __init__(self, root=None):
        self.root = root or REPO_SRC
        self.mods = {}

    def module(self, name):
        if name not in self.mods:
            if name == 'spec':
                path = SPEC_FILE
            else:
                path = os.path.join(self.root, *name.split('.')) + '.py'
            self.mods[name] = ModInfo(name, path)
        return self.mods[name]

    def find(self, qualname):
        """'socket.Socket._websocket_handler.writer' -> (ModInfo, ClassInfo|None, FunctionDef)."""
        parts = qualname.split('.')
        # module may itself be dotted (async_drivers.asgi)
        for n in range(len(parts) - 1, 0, -1):
            modname = '.'.join(parts[:n])
            path = os.path.join(self.root, *modname.split('.')) + '.py'
            if modname == 'spec' or os.path.exists(path):
                mod = self.module(modname)
                rest = parts[n:]
                break
        else:
            raise KeyError(qualname)
        cls = None
        node = None
        scope_funcs, scope_classes = mod.funcs, mod.classes
        for p in rest:
            if p in scope_classes and node is None:
                cls = scope_classes[p]
                scope_funcs, scope_classes = cls.methods, cls.classes
            elif node is None and p in scope_funcs:
                node = scope_funcs[p]
            elif node is not None:
                found = None
                for s in ast.walk(node):
                    if isinstance(s, (ast.FunctionDef, ast.AsyncFunctionDef)) and \
                            s.name == p and s is not node:
                        found = s
                        break
                if found is None:
                    raise KeyError(qualname)
                node = found
            else:
                raise KeyError(qualname)
        if node is None:
            raise KeyError(qualname)
        return mod, cls, node

    def segment(self, mod, node):
        return ast.get_source_segment(mod.text, node)

    def sha(self, mod, node):
        return hashlib.sha256(self.segment(mod, node).encode()).hexdigest()
