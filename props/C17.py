"""C17 - session ids."""
FUNCTIONS = ['base_server.BaseServer.generate_id']
LEVEL_TEXT = ('generate_id is verified against its contract (id == sid_of(12 fresh CSPRNG bytes, '
              'counter), counter incremented mod 2^24); length, alphabet, injectivity (hence 96 '
              'recoverable CSPRNG bits) and uniqueness over any 2^24-window are lemmas over '
              'sid_of, for all random outputs and all counter values')
LEVEL_NOTE = ('assumed: RFC 4648 bit-level definition of b64encode on 15 bytes, int.to_bytes, '
              'single-character str.replace position-wise, secrets.token_bytes returns n bytes from '
              'the OS CSPRNG; no yield point inside generate_id (no call that can suspend)')
ASSUMPTIONS = ['B64-15, BE3, REPL1 library contracts (DESIGN Appendix E)',
               'uniqueness across a window follows from counter-step (induction over issues, stated) + window + injectivity',
               'the counter is per server instance; concurrent preemptive increments are outside the cooperative model']
NOT_DECIDED = ['quality of the OS random source', 'preemptive-thread races on sequence_number']
