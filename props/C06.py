"""C06 - upgrade handshake."""
FUNCTIONS = ['socket.Socket._websocket_handler', 'socket.Socket._upgrade_websocket',
             'socket.Socket.handle_get_request']
CLAIMED = False
