"""C06 - upgrade handshake."""
FUNCTIONS = ['socket.Socket._websocket_handler', 'socket.Socket._upgrade_websocket',
             'socket.Socket.handle_get_request']
FUNCTIONS += ['server.Server.handle_request', 'server.Server._handle_connect',
              'async_server.AsyncServer.handle_request', 'async_server.AsyncServer._handle_connect']
FUNCTIONS += ['async_socket.AsyncSocket._websocket_handler', 'async_socket.AsyncSocket._upgrade_websocket',
              'async_socket.AsyncSocket.handle_get_request']

LEVEL_TEXT = "_websocket_handler / _upgrade_websocket / handle_get_request (threaded and asyncio sockets) are verified over a ghost frame log: the session is upgraded only if the new frames start with in PING 'probe', out PONG 'probe', in UPGRADE; every other outcome (wrong frame, oversize, undecodable, driver error, closure) leaves upgrading reset, nothing taken from the queue, queue content preserved, no event; an upgraded session refuses another upgrade with OSError and no effect; a WebSocket open is in WebSocket mode at once"
LEVEL_NOTE = 'WebSocket driver wrapper contract (calls the handler once; wait/send may raise); one upgrade socket per session at a time (precondition); socket time-out tuning on driver internals is an abstract region; asyncio twin verified by the same contracts where listed'
NOT_DECIDED = ['two simultaneous upgrade sockets for one session', 'the transports gate is part of handle_request (thorough tier)']
ASSUMPTIONS = [LEVEL_NOTE]
