"""C01 - packet wire form and round trip."""
FUNCTIONS = ['packet.Packet.__init__', 'packet.Packet.encode', 'packet.Packet.decode',
             'json._safe_int', 'json.loads']
ASSUMPTIONS = []
NOT_DECIDED = []
TRUSTED = []
