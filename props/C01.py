"""C01 - packet wire form and round trip."""
FUNCTIONS = ['packet.Packet.__init__', 'packet.Packet.encode', 'packet.Packet.decode',
             'json._safe_int', 'json.loads']
ASSUMPTIONS = []
NOT_DECIDED = []
TRUSTED = []
LEVEL_TEXT = ('every path of Packet.__init__/encode/decode is verified against contracts whose '
              'postconditions are the spec functions wire/dec_* written from the property '
              'statement; the round trip is a lemma over those spec functions; all inputs, no bound')
LEVEL_NOTE = ('assumed: library contracts of json.dumps/loads (L-JSON), base64 (RFC 4648), '
              'int()/str(), utf-8; Python semantics table of pyvc (DESIGN 1.2); text whose JSON '
              'parse exhausts the recursion limit is excluded from the round trip')
ASSUMPTIONS = ['L-JSON: loads(dumps(j)) == j, dumps output has no control characters',
               'RFC 4648: b64decode(b64encode(b)) == b',
               'int() of a one-character string is 0..9 when it succeeds',
               'payload text that makes json.loads raise RecursionError is excluded from the round-trip clause',
               'NaN/Infinity JSON literals compare by identity of the parsed value, not float equality']
NOT_DECIDED = ['non-ASCII decimal digits as the type character are decoded to 0..9 (recorded, not flagged)']
