"""C20 - middleware routing and static files."""
FUNCTIONS = ['static_files.get_static_file', 'middleware.WSGIApp.not_found',
             'middleware.WSGIApp.__call__', 'middleware.WSGIApp.__init__',
             'async_drivers.asgi.ASGIApp.__init__', 'async_drivers.asgi.ASGIApp.__call__',
             'async_drivers.asgi.ASGIApp.lifespan', 'async_drivers.asgi.ASGIApp.serve_static_file',
             'async_drivers.asgi.ASGIApp.not_found']

LEVEL_TEXT = ('WSGIApp.__call__ is verified against a routing contract over a ghost route log: the Engine.IO '
              'server is called exactly when PATH_INFO starts with the normalised endpoint (and then nothing '
              'else happens here); otherwise a static file is served (200, one Content-Type header, one file '
              'opened) only through get_static_file, otherwise the wrapped application is called if there is '
              'one, otherwise 404; get_static_file never serves a request path with a ".." segment, and the '
              'served name is the mapped root followed by the unmatched suffix of the request path (loop '
              'invariant path0 == path + extra_path, postcondition with an explicit split witness); ASGIApp.__call__ is '
              'verified against the same routing contract over the ASGI scope (lifespan scopes go to lifespan(); '
              'http/websocket scopes under the endpoint - or every such scope when the endpoint is None - go to '
              'the engine; a file is served only for http scopes, never for a path with "..", with status 200; '
              'otherwise wrapped app or 404); lifespan() is verified against lifespan_answers (every startup '
              'answered complete, at most one final failed / shutdown message, nothing sent and the wrapped app '
              'called when no callbacks are configured)')
LEVEL_NOTE = ('string-valued static mappings only (dict-valued entries with explicit content types are not '
              'modelled); os.path.exists / open are library contracts; "beneath the mapped directory" = no ".." '
              'segment in the appended suffix, which follows from the two proved clauses plus the str.split '
              'contract (segments of a suffix are segments of the path) - that last step is assumed; ASGI '
              'receive/send callables and lifespan callbacks are library contracts (receive yields a dict with '
              'a type, send delivers, a callback returns or raises); the gunicorn socket adapter lines are an '
              'abstract region')
NOT_DECIDED = ['dict-valued static file entries', 'symlinks / percent-encoded segments (the gateway decodes)']
ASSUMPTIONS = [LEVEL_NOTE]
