"""C20 - middleware routing and static files."""
FUNCTIONS = ['static_files.get_static_file', 'middleware.WSGIApp.not_found',
             'middleware.WSGIApp.__call__', 'middleware.WSGIApp.__init__']

LEVEL_TEXT = ('WSGIApp.__call__ is verified against a routing contract over a ghost route log: the Engine.IO '
              'server is called exactly when PATH_INFO starts with the normalised endpoint (and then nothing '
              'else happens here); otherwise a static file is served (200, one Content-Type header, one file '
              'opened) only through get_static_file, otherwise the wrapped application is called if there is '
              'one, otherwise 404; get_static_file never serves a request path with a ".." segment, and the '
              'served name is the mapped root followed by the unmatched suffix of the request path (loop '
              'invariant path0 == path + extra_path)')
LEVEL_NOTE = ('string-valued static mappings only (dict-valued entries with explicit content types are not '
              'modelled); os.path.exists / open are library contracts; "beneath the mapped directory" = no ".." '
              'segment in the appended suffix, which follows from the two proved clauses plus the str.split '
              'contract (segments of a suffix are segments of the path) - that last step is assumed; ASGIApp '
              '(routing, lifespan) is not yet under contract; the gunicorn socket adapter lines are an '
              'abstract region')
NOT_DECIDED = ['ASGIApp routing and lifespan', 'dict-valued static file entries', 'symlinks / percent-encoded segments (the gateway decodes)']
ASSUMPTIONS = [LEVEL_NOTE]
