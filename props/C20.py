"""C20 - middleware routing and static files."""
FUNCTIONS = ['static_files.get_static_file', 'middleware.WSGIApp.not_found']
CLAIMED = False
