"""C19 - compression and JSONP."""
FUNCTIONS = ['payload.Payload.encode', 'base_server.BaseServer._ok',
             'base_server.BaseServer._gzip', 'base_server.BaseServer._deflate',
             'base_server.BaseServer._bad_request', 'base_server.BaseServer._method_not_found',
             'base_server.BaseServer._unauthorized', 'server.Server.handle_request',
             'async_server.AsyncServer.handle_request']

LEVEL_TEXT = ('Payload.encode (JSONP branch) returns exactly ___eio[<index>](<json.dumps(payload text)>); - one '
              'call statement whose single argument is a string literal of the joined packet encodings; _ok '
              'carries it into the response; in handle_request the compression block is verified with a loop '
              'invariant and program-point obligations: a Content-Encoding header is added only if compression '
              'is enabled, the body reached the threshold and the coding is the first supported one the request '
              'lists, the body is then compressed(coding, original body), and a body without the header is the '
              'original body; the response constructors (_ok, _bad_request, _method_not_found, _unauthorized) '
              'return a header list that is a fresh object (engine origin tracking of module-/class-level '
              'lists), so the in-place `+=` of handle_request cannot leak headers into later responses')
LEVEL_NOTE = ('assumed library facts: json.dumps of a str is a complete JavaScript string literal whose value is '
              'that str (L-JSON-JS); decompress(compress(x)) == x for gzip / zlib (C code, _gzip/_deflate are '
              'trusted wrappers); "offered" = listed by name, parameters such as q=0 ignored (DESIGN 5.3); aliasing is tracked only for module-/class-level list and '
              'dict constants reached by a direct attribute read (a value merged at a join point or rebuilt '
              'by a type coercion loses its origin)')
NOT_DECIDED = ['q-values in Accept-Encoding']
ASSUMPTIONS = [LEVEL_NOTE]
