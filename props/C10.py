"""C10 - this package's clients and servers interoperate (claimed for the polling client->server
channel at contract level only; the composition over conversations is not mechanised)."""
FUNCTIONS = ['client.Client._write_loop', 'async_client.AsyncClient._write_loop', 'payload.Payload.encode', 'payload.Payload.decode',
             'packet.Packet.encode', 'packet.Packet.decode',
             'socket.Socket.handle_post_request', 'async_socket.AsyncSocket.handle_post_request']

LEVEL_TEXT = ('the two ends of the polling client->server channel are under contract with a shared spec '
              'function: the clients\' write loops (threaded and asyncio) hands ONE body payload_text(batch) per batch, the '
              'batch being exactly the packets taken from its queue, in order (program-point obligations + '
              'loop invariants); Payload.decode rebuilds from such a text the same number of packets, each '
              'with the type and payload the text encodes, but only for at most 16 packets; Packet '
              'encode/decode round-trip (lemma C01-roundtrip); handle_post_request (both servers) hands the '
              'decoded packets to receive in order; the obligation "a POST body carries at most 16 packets" '
              'on the client write loop is NOT provable - known finding KF-C10-client-batch-unbounded '
              '(replayed natively: findings/kf_c10_client_batch.py, 17 queued sends are all lost and the '
              'server still answers 200)')
LEVEL_NOTE = ('per-function contracts only: that the text one side produces is the text the other side '
              'consumes is the HTTP library contract (rt.http_request); exactly-once / in-order over whole '
              'conversations, the server->client direction, WebSocket, upgrade, heartbeats keeping an idle '
              'connection alive and the both-sides-see-one-disconnect clause are NOT decided (they are '
              'properties of the composition under all schedules, outside what per-function contracts '
              'express)')
NOT_DECIDED = ['composition over conversations and schedules (2x2 pairs, all transports)',
               'server->client direction', 'WebSocket and upgrade paths', 'heartbeat liveness',
               'one disconnect on both sides']
ASSUMPTIONS = [LEVEL_NOTE]
