"""C11 - OPEN handshake."""
FUNCTIONS = ['base_server.BaseServer._upgrades', 'base_server.BaseServer._unauthorized',
             'base_server.BaseServer._ok']
FUNCTIONS += ['server.Server._handle_connect', 'async_server.AsyncServer._handle_connect']
FUNCTIONS += ['server.Server._trigger_event', 'async_server.AsyncServer._trigger_event']
FUNCTIONS += ['base_server.BaseServer._generate_sid_cookie']
FUNCTIONS += ['base_server.BaseServer.__init__']

LEVEL_TEXT = "_handle_connect (threaded and asyncio servers, one contract text) is verified: one id issued, only that id's table entry changes, the connect handler is the first event and runs once, a 401 answer removes the id, a 200 answer has the OPEN packet first with sid/upgrades/pingTimeout/pingInterval/maxPayload equal to the spec function open_info (milliseconds exact), the body is the payload of the packets taken, Set-Cookie exactly when a cookie name is configured; _upgrades equals the statement's upgrade condition"
LEVEL_NOTE = '_generate_sid_cookie is verified for the plain-name configuration (exact value) and for dict configurations with string / boolean attribute values (no exception escapes, the cookie starts with name=sid); callable attribute values and the dict-cookie branch of _handle_connect are not modelled; handler contract as in C05'
NOT_DECIDED = ['dict-valued cookie configuration', 'JSONP form of the OPEN response (C19)']
ASSUMPTIONS = [LEVEL_NOTE]
