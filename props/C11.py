"""C11 - OPEN handshake."""
FUNCTIONS = ['base_server.BaseServer._upgrades', 'base_server.BaseServer._unauthorized',
             'base_server.BaseServer._ok']
CLAIMED = False
FUNCTIONS += ['server.Server._handle_connect']
FUNCTIONS += ['base_server.BaseServer._generate_sid_cookie']
