"""C14 - inbound size and volume limits."""
FUNCTIONS = ['socket.Socket.handle_post_request', 'async_socket.AsyncSocket.handle_post_request',
             'socket.Socket._websocket_handler', 'async_socket.AsyncSocket._websocket_handler',
             'payload.Payload.decode',
             'payload.Payload.__init__']

LEVEL_TEXT = ('handle_post_request (both servers) raises ContentTooLongError exactly when the declared '
              'length exceeds the limit and then reads nothing and dispatches nothing; otherwise it '
              'reads exactly the declared length (<= limit); at most 16 packets of a body are handed to '
              'receive; in the WebSocket read loop a frame reaches the packet decoder only if its length '
              'is <= the limit (program-point obligation); Payload.decode refuses over-limit bodies '
              'before any packet is built')
LEVEL_NOTE = ('CONTENT_LENGTH is assumed absent or a non-negative decimal (HTTP grammar, the gateway\'s job); '
              'wsgi.input.read(n) returns at most n bytes (library contract); the 400 answer / session end '
              'for oversize bodies is part of handle_request (C12/C15 checks)')
NOT_DECIDED = ['asgi.translate_request concatenates the whole ASGI body before the gate (observation)',
               'asyncio _websocket_handler not yet under contract']
ASSUMPTIONS = [LEVEL_NOTE]
