"""C08 - client lifecycle."""
FUNCTIONS = ['base_client.BaseClient._reset', 'client.Client._send_packet',
             'client.Client._trigger_event', 'client.Client.disconnect', 'client.Client.send',
             'client.Client._receive_packet',
             'async_client.AsyncClient._reset', 'async_client.AsyncClient._send_packet',
             'async_client.AsyncClient._trigger_event', 'async_client.AsyncClient.disconnect',
             'async_client.AsyncClient.send', 'async_client.AsyncClient._receive_packet',
             'client.Client._read_loop_polling', 'async_client.AsyncClient._read_loop_polling',
             'client.Client._read_loop_websocket', 'async_client.AsyncClient._read_loop_websocket',
             'client.Client._connect_polling', 'async_client.AsyncClient._connect_polling',
             'client.Client.connect', 'async_client.AsyncClient.connect']

LEVEL_TEXT = 'packet-level lifecycle functions of both clients (Client and AsyncClient, one contract text) are verified: disconnect() always ends in state disconnected with the sid cleared, is a no-op on a client that is not connected, and on a connected client queues CLOSE then the sentinel and fires exactly one disconnect event with the given reason; send()/_send_packet() are no-ops unless connected; a CLOSE packet from the server disconnects; _reset gives the reusable state'
LEVEL_NOTE = 'both clients\' read loops (polling and WebSocket) are under contract (when it returns the client is no longer connected; a connection it ends itself is reported by exactly one disconnect event with reason transport error before the reset, a CLOSE packet by one with reason server disconnect, no other synchronous event is fired; two escaping exceptions are known findings); both clients\' polling handshake _connect_polling is under contract (only ConnectionError may be raised and it leaves the client disconnected with no event and no task; otherwise the connect handler is the first event and fires once, the rest of the first payload is dispatched, loops are started) with _connect_websocket as an ASSUMED contract; five kinds of malformed reply escape as other exceptions (known findings); connect() is under contract on top of it (ValueError unless disconnected / no valid transport, otherwise the chosen handshake\'s contract); _connect_websocket (network glue over requests / websocket-client / aiohttp) are NOT under contract: the clauses about ConnectionError on refusal, adoption of the OPEN fields, task termination and wait() are not decided'
NOT_DECIDED = ['connect() outcomes and exception classes', 'background task termination / wait()', 'known findings KF-C08-disconnect-before-loops(-async) and KF-C08-double-disconnect-(async)client']
ASSUMPTIONS = [LEVEL_NOTE]
