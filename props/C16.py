"""C16 - session table hygiene."""
FUNCTIONS = ['base_server.BaseServer._get_socket', 'base_server.BaseServer.transport',
             'base_server.BaseServer._upgrades', 'server.Server.send_packet',
             'async_server.AsyncServer.send_packet']
CLAIMED = False
