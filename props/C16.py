"""C16 - session table hygiene."""
FUNCTIONS = ['base_server.BaseServer._get_socket', 'base_server.BaseServer.transport',
             'base_server.BaseServer._upgrades', 'server.Server.send_packet',
             'async_server.AsyncServer.send_packet']
FUNCTIONS += ['server.Server.disconnect', 'async_server.AsyncServer.disconnect']
FUNCTIONS += ['server.Server.send', 'async_server.AsyncServer.send', 'server.Server.get_session',
              'server.Server.save_session', 'async_server.AsyncServer.get_session',
              'async_server.AsyncServer.save_session']
FUNCTIONS += ['server.Server._handle_connect', 'async_server.AsyncServer._handle_connect']
FUNCTIONS += ['server.Server._service_task', 'async_server.AsyncServer._service_task']

LEVEL_TEXT = '_get_socket raises KeyError exactly for unknown or closed ids and reaps only the closed one; transport/get_session/save_session raise KeyError for dead ids and never touch another session (frame + unchanged()); send/send_packet on a dead id is a silent no-op; disconnect removes exactly that id / empties the table'
LEVEL_NOTE = 'monitor sweep (_service_task) is under contract for C07 (it only deletes closed sessions: its frame); session dict isolation relies on BaseSocket.__init__ allocating a fresh dict (inlined)'
NOT_DECIDED = ['bounded number of sweeps (_service_task)', 'session() context manager']
ASSUMPTIONS = [LEVEL_NOTE]
