"""C13 - origin policy and CORS headers."""
FUNCTIONS = ['base_server.BaseServer._cors_allowed_origins', 'base_server.BaseServer._cors_headers']
