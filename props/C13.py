"""C13 - origin policy and CORS headers."""
FUNCTIONS = ['base_server.BaseServer._cors_allowed_origins', 'base_server.BaseServer._cors_headers']
FUNCTIONS += ['server.Server.handle_request', 'async_server.AsyncServer.handle_request']

LEVEL_TEXT = "_cors_allowed_origins and _cors_headers are verified against the statement-derived spec functions origin_allowed / acao_expected (default = own scheme://host plus the forwarded variant from the first comma-separated token; '*'; string; list; predicate); ACAO is emitted only with an allowed request Origin and equals it, Allow-Credentials only when enabled, nothing when the allow-list is []"
LEVEL_NOTE = 'str.split/strip/format library contracts; the configured predicate is a pure function; the gate-first clause is part of handle_request (thorough tier)'
NOT_DECIDED = ['origin gate placement inside handle_request is checked in the thorough tier only']
ASSUMPTIONS = [LEVEL_NOTE]
