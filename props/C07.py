"""C07 - heartbeat."""
FUNCTIONS = ['socket.Socket._send_ping', 'async_socket.AsyncSocket._send_ping',
             'socket.Socket.schedule_ping', 'async_socket.AsyncSocket.schedule_ping',
             'socket.Socket.check_ping_timeout', 'async_socket.AsyncSocket.check_ping_timeout',
             'socket.Socket.send', 'async_socket.AsyncSocket.send',
             'socket.Socket.receive', 'async_socket.AsyncSocket.receive',
             'socket.Socket.poll', 'async_socket.AsyncSocket.poll',
             'socket.Socket.handle_get_request', 'async_socket.AsyncSocket.handle_get_request',
             'server.Server._handle_connect', 'async_server.AsyncServer._handle_connect',
             'server.Server._service_task', 'async_server.AsyncServer._service_task']

LEVEL_TEXT = ('over a ghost clock: _send_ping emits the PING exactly ping_interval after it was scheduled '
              'and records that instant; it is scheduled at the OPEN (_handle_connect) and at every PONG '
              '(receive); check_ping_timeout closes with reason "ping timeout" exactly when '
              'now - last_ping > ping_timeout (strict), send() after the deadline closes first and enqueues '
              'nothing; poll() gives up after ping_interval + ping_timeout and handle_get_request then closes '
              'with "transport error"; ACCURACY and the 3 x ping_timeout BOUND are arithmetic lemmas over '
              'these contracts')
LEVEL_NOTE = ('ideal timers (sleep(d) advances the ghost clock by exactly d, zero time inside atomic sections, '
              'zero spawn latency); floats as reals; the monitor (_service_task) is under contract for the sleeps '
              'it requests: one sweep over the n sessions present at its start waits n x (ping_timeout / n) <= '
              'ping_timeout in total (program-point check + loop invariant over the ghost `slept`), which with '
              'zero processing time gives the sweep period the BOUND lemma uses; that every session of the '
              'snapshot is visited once per sweep is the for-loop itself (not a separate ghost log)')
NOT_DECIDED = ['real scheduler latency', 'processing time inside a monitor sweep (handler bodies, sends)', 'WebSocket read time-out -> "transport close" (asyncio wait_for branch)']
ASSUMPTIONS = [LEVEL_NOTE]
