"""C05 - session events."""
FUNCTIONS = ['socket.Socket.check_ping_timeout', 'socket.Socket.send', 'socket.Socket.close',
             'socket.Socket.schedule_ping', 'socket.Socket._send_ping',
             'server.Server._trigger_event']
CLAIMED = False
