"""C05 - session events."""
FUNCTIONS = ['socket.Socket.check_ping_timeout', 'socket.Socket.send', 'socket.Socket.close',
             'socket.Socket.schedule_ping', 'socket.Socket._send_ping',
             'server.Server._trigger_event', 'async_server.AsyncServer._trigger_event',
             'async_socket.AsyncSocket.check_ping_timeout', 'async_socket.AsyncSocket.send',
             'async_socket.AsyncSocket.close', 'async_socket.AsyncSocket.schedule_ping',
             'async_socket.AsyncSocket._send_ping']
# functions whose contracts carry C05-tagged clauses (session-end bookkeeping on their paths)
FUNCTIONS += ['socket.Socket.receive', 'async_socket.AsyncSocket.receive',
              'socket.Socket._websocket_handler', 'async_socket.AsyncSocket._websocket_handler',
              'server.Server._handle_connect', 'async_server.AsyncServer._handle_connect',
              'server.Server.disconnect', 'async_server.AsyncServer.disconnect']

LEVEL_TEXT = "close() is verified to flip closing/closed exactly once and to log exactly one disconnect event with the caller's reason (or 'server disconnect'), idempotently; every call site passes the reason of its cause (ping timeout, client CLOSE, transport error/close, server disconnect); _trigger_event never raises and invokes the handler once; the WebSocket read loop may read a frame only while the session is open (program-point obligation)"
LEVEL_NOTE = 'sequential model per function (first cause wins is the closing guard; races between OS threads are outside the cooperative model); handler behaviour is the assumed library contract (arbitrary result or exception, TypeError when the signature does not fit)'
NOT_DECIDED = ['preemptive races on the closing guard', 'known finding KF-C05-double-disconnect (legacy-signature retry runs a TypeError-raising disconnect handler twice)']
ASSUMPTIONS = [LEVEL_NOTE]
