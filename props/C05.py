"""C05 - session events."""
FUNCTIONS = ['socket.Socket.check_ping_timeout', 'socket.Socket.send', 'socket.Socket.close',
             'socket.Socket.schedule_ping', 'socket.Socket._send_ping',
             'server.Server._trigger_event', 'async_server.AsyncServer._trigger_event',
             'async_socket.AsyncSocket.check_ping_timeout', 'async_socket.AsyncSocket.send',
             'async_socket.AsyncSocket.close', 'async_socket.AsyncSocket.schedule_ping',
             'async_socket.AsyncSocket._send_ping']
CLAIMED = False
