"""C03 - server-to-client messages."""
FUNCTIONS = ['socket.Socket.poll', 'async_socket.AsyncSocket.poll']
CLAIMED = False  # until the rest of C03 is under contract
