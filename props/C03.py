"""C03 - server-to-client messages."""
FUNCTIONS = ['socket.Socket.poll', 'async_socket.AsyncSocket.poll', 'socket.Socket.send',
             'async_socket.AsyncSocket.send', 'socket.Socket.handle_get_request',
             'server.Server.send', 'server.Server.send_packet', 'async_server.AsyncServer.send',
             'async_server.AsyncServer.send_packet', 'base_server.BaseServer._ok']
FUNCTIONS += ['socket.Socket._websocket_handler.writer', 'async_socket.AsyncSocket._websocket_handler.writer']
FUNCTIONS += ['async_socket.AsyncSocket.handle_get_request']

LEVEL_TEXT = "per-function contracts over the ghost queue view (accepted / taken logs kept by the queue library contract): send enqueues exactly once on that session's queue only (object-granular frame), poll returns exactly what it removed, in order, never a None, and puts a drained sentinel back; polls during/after an upgrade return one NOOP and leave the queue untouched; the response body is the payload of exactly the packets taken; the WebSocket writer closure (both servers) hands the frames wire(pkt) of exactly the packets it took to ws.send, one for one and in order (loop invariants over the ghost frame log; after a send error only a tail of the last batch is unsent)"
LEVEL_NOTE = 'sequential (single-agent) model of each function with producer interference at blocking gets; FIFO/at-most-once of the queue itself is the assumed queue library contract; cooperative scheduling; asyncio handle_get_request / writer loops not yet under contract'
NOT_DECIDED = ["liveness ('every message is delivered if the client keeps reading')", 'order between two overlapping polling responses', 'preemptive OS-thread schedules']
ASSUMPTIONS = [LEVEL_NOTE]
