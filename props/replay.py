#!/venv/bin/python
"""Native replay of a verifier counter-model against the REAL code (runs under /venv/bin/python,
PYTHONPATH=/repo/src:/verif). Usage: replay.py generic <replay.json>

The replay file carries the concrete inputs read from the solver's model and the contract
clauses (Python expressions). The real function is called on the rebuilt inputs and every clause
of its contract is evaluated natively with contracts/spec.py; a clause that is false on the real
outcome confirms the violation (exit 1, 'REPLAY-CONFIRMED'). Exit 0 = not confirmed."""
import ast
import copy
import importlib
import json
import os
import sys

import importlib.util  # noqa: E402
_p = os.path.join(os.path.dirname(os.path.dirname(os.path.abspath(__file__))), 'contracts',
                  'spec.py')
_s = importlib.util.spec_from_file_location('verif_spec', _p)
spec = importlib.util.module_from_spec(_s)
_s.loader.exec_module(spec)


def implies(a, b):
    return (not a) or b


def forall(f, lo=None, hi=None):
    return all(f(k) for k in range(lo, hi))


def exists(f, lo=None, hi=None):
    return any(f(k) for k in range(lo, hi))


def unshared(x):
    """x is not one of the library's module- or class-level objects."""
    import engineio
    import types
    for name, mod in list(sys.modules.items()):
        if not name.startswith('engineio') or mod is None:
            continue
        for v in vars(mod).values():
            if v is x:
                return False
            if isinstance(v, type):
                if any(a is x for a in vars(v).values()):
                    return False
    return True


def is_record(x):
    return False        # natively every dict is just a dict: the symbolic case split does not exist


def exists_split(f, s):
    return any(f(s[:k], s[k:]) for k in range(len(s) + 1))


def typeis(x, name):
    return type(x).__name__ == name


class Builder:
    def __init__(self, objects):
        self.objects = objects
        self.built = {}

    def value(self, j):
        if isinstance(j, dict):
            if '$bytes' in j:
                return bytes(j['$bytes'])
            if '$bytearray' in j:
                return bytearray(j['$bytearray'])
            if '$real' in j:
                return j['$real'][0] / j['$real'][1]
            if '$json' in j:
                return {'k': 1} if j.get('isdict', True) else [1]
            if '$tuple' in j:
                return tuple(j['$tuple'])
            if '$ref' in j:
                return self.obj(j['$ref'])
            if '$opaque' in j:
                return object()
            raise ValueError('unreadable model value %r' % (j,))
        if isinstance(j, list):
            return [self.value(x) for x in j]
        return j

    def obj(self, key):
        if key in self.built:
            return self.built[key]
        d = self.objects[key]
        cls = d['$class']
        o = BUILDERS[cls](self, d)
        return o


def build_packet(b, d):
    from engineio import packet
    o = packet.Packet.__new__(packet.Packet)
    b.built['Packet#x%d' % id(o)] = o
    for f in ('packet_type', 'data', 'binary', 'encode_cache'):
        if f in d:
            setattr(o, f, b.value(d[f]))
    return o


def build_payload(b, d):
    from engineio import payload
    o = payload.Payload.__new__(payload.Payload)
    o.packets = b.value(d.get('packets', []))
    return o


BUILDERS = {'Packet': build_packet, 'Payload': build_payload}


class OldRewriter(ast.NodeTransformer):
    def __init__(self, env_old, glob):
        self.env_old = env_old
        self.glob = glob
        self.bound = {}

    def visit_Call(self, node):
        if isinstance(node.func, ast.Name) and node.func.id == 'old':
            code = compile(ast.Expression(node.args[0]), '<old>', 'eval')
            val = eval(code, self.glob, self.env_old)
            name = '__old_%d' % len(self.bound)
            self.bound[name] = val
            return ast.copy_location(ast.Name(id=name, ctx=ast.Load()), node)
        return self.generic_visit(node)


def native_eval(src, env, env_old, glob):
    tree = ast.parse(src.strip(), mode='eval')
    rw = OldRewriter(env_old, glob)
    tree = ast.fix_missing_locations(rw.visit(tree))
    e = dict(env)
    e.update(rw.bound)
    return eval(compile(tree, '<clause>', 'eval'), glob, e)


def resolve(qualname):
    parts = qualname.split('.')
    for n in range(len(parts) - 1, 0, -1):
        try:
            mod = importlib.import_module('engineio.' + '.'.join(parts[:n]))
        except ImportError:
            continue
        o = mod
        for p in parts[n:]:
            o = getattr(o, p)
        return o
    raise KeyError(qualname)


def generic(rec):
    inp = rec.get('inputs') or {}
    if 'params' not in inp:
        print('no readable inputs in the model')
        return 0
    b = Builder(inp.get('objects', {}))
    params = {k: b.value(v) for k, v in inp['params'].items()}
    ct = rec['contract']
    glob = dict(vars(spec))
    glob.update(implies=implies, forall=forall, exists=exists, typeis=typeis,
                exists_split=exists_split, unshared=unshared, is_record=is_record)
    # the concretised input must satisfy the precondition, else the model does not transfer
    for lab, src in ct['requires']:
        try:
            ok = native_eval(src, params, params, glob)
        except Exception as e:
            print('precondition %s not evaluable natively: %r' % (lab, e))
            return 0
        if not ok:
            print('concretised input violates precondition %s; not a witness' % lab)
            return 0
    old = copy.deepcopy(params)
    fn = resolve(rec['function'])
    names = ct['param_order']
    args = [params[n] for n in names]
    outcome = ('return', None)
    try:
        outcome = ('return', fn(*args))
    except BaseException as e:      # noqa
        outcome = ('raise', e)
    print('call %s(%s) -> %s %r' % (rec['function'], ', '.join(repr(a)[:80] for a in args),
                                   outcome[0], outcome[1]))
    failed = []
    whens = []
    for exc, when, exact, lab in ct['raises']:
        try:
            w = bool(native_eval(when, old, old, glob))
        except Exception as e:
            print('raises clause %s not evaluable: %r' % (lab, e))
            w = None
        whens.append((exc, w, exact, lab))
    if outcome[0] == 'raise':
        e = outcome[1]
        names_mro = [c.__name__ for c in type(e).__mro__]
        ok = any(exc in names_mro or (exc == 'BinasciiError' and 'Error' in names_mro) or
                 (exc == 'JSONDecodeError' and 'JSONDecodeError' in names_mro)
                 for exc, w, exact, lab in whens if w is not False)
        if not ok:
            failed.append('exception %s (%s) is not allowed by the contract on this input'
                          % (type(e).__name__, e))
    else:
        for exc, w, exact, lab in whens:
            if exact and w:
                failed.append('returned normally although the contract says %s is raised' % exc)
        env = dict(params)
        env['result'] = outcome[1]
        for lab, src in ct['ensures']:
            try:
                ok = native_eval(src, env, old, glob)
            except Exception as e:
                print('ensures %s not evaluable natively: %r' % (lab, e))
                continue
            if not ok:
                failed.append('postcondition %s is false: %s' % (lab, src))
    if failed:
        for f in failed:
            print('FAILED:', f)
        print('REPLAY-CONFIRMED')
        return 1
    print('contract holds natively on this input')
    return 0


def main():
    hook, path = sys.argv[1], sys.argv[2]
    rec = json.load(open(path))
    if hook == 'generic':
        sys.exit(generic(rec))
    mod = importlib.import_module('props.replay_hooks')
    sys.exit(getattr(mod, hook)(rec))


if __name__ == '__main__':
    main()
