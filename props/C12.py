"""C12 - request admission."""
FUNCTIONS = ['server.Server.handle_request', 'async_server.AsyncServer.handle_request',
             'base_server.BaseServer._get_socket',
             'base_server.BaseServer.transport']
FUNCTIONS += ['base_server.BaseServer.__init__']

LEVEL_TEXT = ('handle_request (threaded and asyncio servers, one contract text) is verified against the decision-table spec function '
              'refusal(server, environ) written from the statement (transport not allowed, missing EIO=4, '
              'non-numeric JSONP index, dead / unknown session id, transport mismatch without upgrade, '
              'websocket open without the Upgrade header -> 400; other methods -> 405): a refused request '
              'is answered with exactly that status and changes nothing (session table, queues, flags, '
              'events, ids) except reaping the closed session it names; two intermediate assertions '
              '(cut points) carry the argument through the 150-line function')
LEVEL_NOTE = ('parse_qs is an arbitrary function from the query string to dict[str, non-empty list[str]] '
              '(superset of real queries); callee contracts of _handle_connect, handle_get_request, '
              'handle_post_request, disconnect; the asyncio handle_request is verified from the translated environ on (translate_request is an abstract region, make_response a library contract logging status and headers like start_response)')
NOT_DECIDED = ['the async drivers\' translate_request / make_response (framework glue)',
               'priority among several simultaneous refusal reasons follows the code']
ASSUMPTIONS = [LEVEL_NOTE]
