"""C12 - request admission."""
FUNCTIONS = ['server.Server.handle_request']
CLAIMED = False
