"""C15 - every request and API call completes with a well-formed gateway response."""
FUNCTIONS = ['socket.Socket.close', 'async_socket.AsyncSocket.close', 'server.Server.disconnect',
             'server.Server.send', 'server.Server.send_packet', 'async_server.AsyncServer.send',
             'async_server.AsyncServer.send_packet',
             'base_server.BaseServer._bad_request', 'base_server.BaseServer._method_not_found',
             'base_server.BaseServer._unauthorized', 'base_server.BaseServer._ok',
             'server.Server._handle_connect', 'async_server.AsyncServer._handle_connect']
FUNCTIONS += ['server.Server.handle_request', 'async_server.AsyncServer.handle_request',
              'socket.Socket.handle_get_request',
              'async_socket.AsyncSocket.handle_get_request', 'async_server.AsyncServer.disconnect']

LEVEL_TEXT = 'response constructors produce one of the four status lines with (str,str) headers and a bytes body; send()/disconnect() never raise for any session state; blocking calls carry time credits: queue.join() is bounded only if nothing is unfinished (obligation bounded-block)'
LEVEL_NOTE = 'handle_request itself (start_response exactly once) is verified in the thorough tier; ASGI event order not yet under contract'
NOT_DECIDED = ['known finding KF-C15-close-wait-join (close(wait=True) joins a queue nobody drains)', 'ASGI gateway well-formedness', 'asyncio disconnect(None) (asyncio.wait over concurrent close tasks; with no sessions asyncio.wait([]) raises ValueError) is outside the sequential model']
ASSUMPTIONS = [LEVEL_NOTE]
