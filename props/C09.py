"""C09 - client protocol conduct."""
FUNCTIONS = ['base_client.BaseClient._get_engineio_url', 'client.Client._send_packet',
             'async_client.AsyncClient._send_packet', 'client.Client._trigger_event',
             'client.Client._receive_packet', 'client.Client.send', 'client.Client._write_loop',
             'async_client.AsyncClient._write_loop', 'async_client.AsyncClient._trigger_event',
             'async_client.AsyncClient._receive_packet', 'async_client.AsyncClient.send']

LEVEL_TEXT = '_receive_packet answers a PING with one PONG carrying the same data, hands a MESSAGE to the handler exactly once (one background task) and ignores NOOP / unknown types; send() queues exactly one MESSAGE packet with the given payload, _send_packet queues in call order; _get_engineio_url equals the statement-derived URL function (http(s)/ws(s), caller query kept, endpoint stripped of slashes, transport and EIO=4)'
LEVEL_NOTE = 'the clients\' write loops (threaded and asyncio) is under contract (batch = what was taken from the queue, in order; one POST body payload_text(batch); on WebSocket one frame wire(pkt) per packet in order; every packet marked done once); the probe upgrade and the receive time-outs are in the unverified loops; urlparse is a library contract (parts are functions of the URL)'
NOT_DECIDED = ['_read_loop_* / _connect_websocket probe sequence', 'receive time-outs (silence detection)']
ASSUMPTIONS = [LEVEL_NOTE]
