"""C02 - payload framing."""
FUNCTIONS = ['payload.Payload.__init__', 'payload.Payload.encode', 'payload.Payload.decode']
