"""C02 - payload framing."""
FUNCTIONS = ['payload.Payload.__init__', 'payload.Payload.encode', 'payload.Payload.decode']
LEVEL_TEXT = ('Payload.encode is verified against the recursive spec function payload_text (joined '
              'text-channel encodings, single U+001E separators) by a loop invariant; Payload.decode / '
              '__init__ against: over-limit bodies raise before any packet is built, every failure '
              'leaves packets == [], success gives packet k == dec(part k) for every k (comprehension '
              'invariant); all inputs, all lengths')
LEVEL_NOTE = ('assumed: str.split contract (parts are separator-free and join back to the input), '
              'parse_qs returns a dict of non-empty string lists, callee contracts of Packet (C01); '
              'termination: decode is loop-free apart from a comprehension over a finite list')
ASSUMPTIONS = ['str.split library contract', 'urllib.parse.parse_qs library contract',
               'max_decode_packets is the class default 16 (the contract text names the literal)',
               'exact ValueError conditions of single packets are stated in C01; here ValueError from a '
               'packet is a may-raise whose exceptional exit is proved to leave packets == []']
NOT_DECIDED = ['split(join(xs)) == xs for separator-free xs is the assumed str.split contract, not derived',
               "the form-encoded 'd=' variant is proved relative to the parse_qs contract only"]
