"""C04 - client-to-server packets."""
FUNCTIONS = ['socket.Socket.receive', 'async_socket.AsyncSocket.receive']
CLAIMED = False
