"""C04 - client-to-server packets."""
FUNCTIONS = ['socket.Socket.receive', 'async_socket.AsyncSocket.receive',
             'socket.Socket.handle_post_request', 'async_socket.AsyncSocket.handle_post_request',
             'server.Server._trigger_event', 'async_server.AsyncServer._trigger_event']

LEVEL_TEXT = 'receive is verified against a per-type dispatch contract (PONG re-arms, MESSAGE fires exactly one event or one task with the payload unchanged, UPGRADE -> NOOP, CLOSE ends the session, every other type incl. 7-9 raises UnknownPacketError and changes nothing); the POST loop hands each decoded packet to receive exactly once in wire order (ghost log + loop invariant); undecodable / oversize bodies dispatch nothing'
LEVEL_NOTE = 'ghost event log appended by the (assumed) application-handler contract; handlers do not themselves change server state (sequential model); Payload/Packet contracts of C01/C02'
NOT_DECIDED = ['events fired by background handler tasks are proved per task, not across the scheduler', 'the 400-and-session-ended answer to a protocol error is part of handle_request (thorough tier)']
ASSUMPTIONS = [LEVEL_NOTE]
