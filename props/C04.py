"""C04 - client-to-server packets."""
FUNCTIONS = ['socket.Socket.receive', 'async_socket.AsyncSocket.receive',
             'socket.Socket.handle_post_request', 'async_socket.AsyncSocket.handle_post_request']
CLAIMED = False
