"""C18 - threaded and asyncio servers observationally equivalent.

Decided as: both implementations of every logical step satisfy ONE contract text (await erased by
the front end), and that text fixes the observables the property names (events, taken / accepted
messages, admission status, session flags). Equivalence over histories follows by induction on
steps (stated, not mechanised)."""
PAIRS = [('socket.Socket.%s', 'async_socket.AsyncSocket.%s', m) for m in
         ('poll', 'receive', 'check_ping_timeout', 'send', 'close', 'schedule_ping', '_send_ping',
          'handle_post_request')] + \
        [('server.Server.%s', 'async_server.AsyncServer.%s', m) for m in
         ('_trigger_event', 'send', 'send_packet', 'get_session', 'save_session')]
FUNCTIONS = [a % m for a, b, m in PAIRS] + [b % m for a, b, m in PAIRS]


def _text(c):
    return (sorted((cl.label, cl.src) for cl in c.requires_),
            sorted((cl.label, cl.src, tuple(cl.props)) for cl in c.ensures_),
            sorted((rc.exc, rc.when, rc.exact, tuple((e.label, e.src) for e in rc.ensures))
                   for rc in c.raises_),
            sorted(c.modifies_))


def extra_checks(REG):
    out = []
    for a, b, m in PAIRS:
        ca, cb = REG.contracts.get(a % m), REG.contracts.get(b % m)
        ok = ca is not None and cb is not None and (ca is cb or _text(ca) == _text(cb))
        out.append(('%s#same-contract:%s' % (a % m, m), ok,
                    'threaded and asyncio %s are verified against the same contract text' % m))
    return out


LEVEL_TEXT = ('for 13 logical steps (poll, receive, check_ping_timeout, send, close, schedule_ping, '
              '_send_ping, handle_post_request, _trigger_event, Server.send/send_packet/get_session/'
              'save_session) the threaded and the asyncio implementation are each verified, path by path, '
              'against one and the same contract text (checked structurally), whose postconditions fix the '
              'observables of the property: the event log, accepted / taken packets, flags, raised protocol '
              'errors')
LEVEL_NOTE = ('equivalence over whole histories is the induction over steps (not mechanised); '
              'handle_request, _handle_connect, handle_get_request, _websocket_handler and disconnect are '
              'under contract for the threaded server only, so C18 does not cover them; the asyncio close() '
              'does not put the None sentinel (representation difference hidden by the accepted/taken view)')
NOT_DECIDED = ['AsyncServer.handle_request / _handle_connect / disconnect and the asyncio WebSocket handler',
               'detection of silent peers within the heartbeat bound on both servers (timing)']
ASSUMPTIONS = [LEVEL_NOTE]
