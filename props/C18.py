"""C18 - threaded and asyncio servers observationally equivalent.

Decided as: both implementations of every logical step satisfy ONE contract text (await erased by
the front end), and that text fixes the observables the property names (events, taken / accepted
messages, admission status, session flags). Equivalence over histories follows by induction on
steps (stated, not mechanised)."""
PAIRS = [('socket.Socket.%s', 'async_socket.AsyncSocket.%s', m) for m in
         ('poll', 'receive', 'check_ping_timeout', 'send', 'close', 'schedule_ping', '_send_ping',
          'handle_post_request')] + \
        [('server.Server.%s', 'async_server.AsyncServer.%s', m) for m in
         ('_trigger_event', 'send', 'send_packet', 'get_session', 'save_session',
          '_service_task', '_handle_connect', 'disconnect')] + \
        [('socket.Socket.%s', 'async_socket.AsyncSocket.%s', '_websocket_handler.writer')]
# steps whose two contract texts differ only in clauses about the value returned by the WebSocket
# driver call (threaded drivers return [], asyncio drivers None) and in where the `upgrading` flag
# is reset (threaded: handler and _upgrade_websocket; asyncio: _upgrade_websocket only) - neither is
# an observable of the property; every other clause must be textually identical
PAIRS_MODULO = [('socket.Socket.%s', 'async_socket.AsyncSocket.%s', m) for m in
                ('_websocket_handler', '_upgrade_websocket', 'handle_get_request')] + \
               [('server.Server.%s', 'async_server.AsyncServer.%s', 'handle_request')]
RETURN_VALUE_CLAUSES = {'flag-reset', 'result-empty', 'handled-returns-empty-list',
                        'result-packets-wf', 'body-is-one-chunk'}
FUNCTIONS = [a % m for a, b, m in PAIRS + PAIRS_MODULO] + [b % m for a, b, m in PAIRS + PAIRS_MODULO]


def _text(c):
    return (sorted((cl.label, cl.src) for cl in c.requires_),
            sorted((cl.label, cl.src, tuple(cl.props)) for cl in c.ensures_),
            sorted((rc.exc, rc.when, rc.exact, tuple((e.label, e.src) for e in rc.ensures))
                   for rc in c.raises_),
            sorted(c.modifies_))


def _text_modulo(c):
    rq, en, ra, mo = _text(c)
    return (rq, [e for e in en if e[0] not in RETURN_VALUE_CLAUSES], ra, mo)


def extra_checks(REG):
    out = []
    for a, b, m in PAIRS:
        ca, cb = REG.contracts.get(a % m), REG.contracts.get(b % m)
        ok = ca is not None and cb is not None and (ca is cb or _text(ca) == _text(cb))
        out.append(('%s#same-contract:%s' % (a % m, m), ok,
                    'threaded and asyncio %s are verified against the same contract text' % m))
    for a, b, m in PAIRS_MODULO:
        ca, cb = REG.contracts.get(a % m), REG.contracts.get(b % m)
        ok = ca is not None and cb is not None and _text_modulo(ca) == _text_modulo(cb)
        out.append(('%s#same-contract-modulo-driver-return-value:%s' % (a % m, m), ok,
                    'threaded and asyncio %s are verified against the same contract text except for '
                    'the clauses %s' % (m, sorted(RETURN_VALUE_CLAUSES))))
    return out


LEVEL_TEXT = ('for 21 logical steps (poll, receive, check_ping_timeout, send, close, schedule_ping, '
              '_send_ping, handle_post_request, _trigger_event, Server.send/send_packet/get_session/'
              'save_session, _service_task, _handle_connect, disconnect(sid), the WebSocket writer closure; and - '
              'modulo the clauses about the value returned by the WebSocket driver call / the gateway body - '
              '_websocket_handler, _upgrade_websocket, handle_get_request, handle_request) the threaded and the asyncio implementation are each verified, path by path, '
              'against one and the same contract text (checked structurally), whose postconditions fix the '
              'observables of the property: the event log, accepted / taken packets, flags, raised protocol '
              'errors')
LEVEL_NOTE = ('equivalence over whole histories is the induction over steps (not mechanised); '
              'the asyncio disconnect(None) (concurrent close of all sessions) is outside the sequential model; '
              'the asyncio handle_request is verified from the translated environ on (translate_request / '
              'make_response are driver glue with a library contract); the asyncio close() '
              'does not put the None sentinel (representation difference hidden by the accepted/taken view)')
NOT_DECIDED = ['AsyncServer.disconnect(None)',
               'detection of silent peers within the heartbeat bound on both servers (timing)']
ASSUMPTIONS = [LEVEL_NOTE]
