"""Statement-derived specification functions (DESIGN Appendix F).

This file is dual-use: it is ordinary Python (imported by the replay harness and the run-time
monitor under CPython) and it is also read by the verifier, which evaluates these functions
symbolically with the same evaluator as the code under verification. Only the Python subset
supported by pyvc may be used here."""
import base64
import json
from urllib.parse import parse_qs, urlparse


def recursive(**kw):
    """Marks a recursive spec function (natively: identity). The verifier treats it as an
    uninterpreted function of its arguments and of the heap fields it `reads`, unfolded once per
    call site."""
    def deco(f):
        return f
    return deco



def opaque(**kw):
    """Marks a spec predicate that the verifier keeps folded (an uninterpreted function of its
    arguments) and unfolds once at each call site outside quantifiers. Natively: identity."""
    def deco(f):
        return f
    return deco



# --- C01 ---------------------------------------------------------------------------------------

def is_bin(d):
    return isinstance(d, (bytes, bytearray))


@opaque(returns='bool')
def api_payload(t, d):
    """The payloads the API accepts: none, text, bytes-like (MESSAGE only), JSON dict / list."""
    if t < 0 or t > 6:
        return False
    if d is None or isinstance(d, str):
        return True
    if is_bin(d):
        return t == 4
    return isinstance(d, (dict, list))


@opaque(returns='any')
def wire(t, d, b64):
    """Engine.IO v4 representation of packet (t, d) on a text-only (b64) or binary channel."""
    if is_bin(d):
        if b64:
            return 'b' + base64.b64encode(d).decode('utf-8')
        return d
    if d is None:
        return str(t)
    if isinstance(d, str):
        return str(t) + d
    return str(t) + json.dumps(d, separators=(',', ':'))


@opaque(returns='bool')
def cache_ok(cache, t, d):
    """Object invariant of the encode cache: whatever is cached is right for both channels."""
    return (not cache) or (cache == wire(t, d, True) and cache == wire(t, d, False))


@opaque(returns='any')
def lit(s):
    """Text that is a JSON object, array, string, float or null literal is that value;
    integer-looking (incl. true/false, which Python counts as int) and all other text stays."""
    try:
        v = json.loads(s)
    except ValueError:
        return s
    if isinstance(v, int):
        return s
    return v


@opaque(returns='bool')
def int_ok(s):
    try:
        int(s)
    except ValueError:
        return False
    return True


@opaque(returns='bool')
def dec_fails(e):
    """Decoding e raises ValueError."""
    if is_bin(e):
        return False
    if len(e) == 0:
        return True
    if e[0] == 'b':
        return not b64_ok(e[1:])
    return not int_ok(e[0])


@opaque(returns='bool')
def dec_recursion(e):
    """Decoding e exhausts the interpreter's recursion limit inside the JSON parser."""
    if is_bin(e) or len(e) == 0 or e[0] == 'b' or not int_ok(e[0]):
        return False
    try:
        json.loads(e[1:])
    except RecursionError:
        return True
    except ValueError:
        return False
    return False


@opaque(returns='bool')
def b64_ok(s):
    try:
        base64.b64decode(s)
    except ValueError:
        return False
    return True


@opaque(returns='bool')
def dec_binary(e):
    return is_bin(e) or e[0] == 'b'


@opaque(returns='int')
def dec_type(e):
    if is_bin(e) or e[0] == 'b':
        return 4
    return int(e[0])


@opaque(returns='any')
def dec_data(e):
    if is_bin(e):
        return bytes(e)
    if e[0] == 'b':
        return base64.b64decode(e[1:])
    return lit(e[1:])


@opaque(returns='any')
def norm(d):
    """What a payload comes back as after a round trip."""
    if d is None:
        return lit('')
    if isinstance(d, str):
        return lit(d)
    if is_bin(d):
        return bytes(d)
    return d


# --- C17 ---------------------------------------------------------------------------------------

def sid_of(r12, c):
    """The session id built from 12 CSPRNG bytes and the 24-bit counter value c."""
    return base64.b64encode(r12 + c.to_bytes(3, 'big')).decode('utf-8').replace(
        '/', '_').replace('+', '-')


# --- C02 ---------------------------------------------------------------------------------------

def implies(a, b):
    return (not a) or b


def forall(f, lo, hi):
    for k in range(lo, hi):
        if not f(k):
            return False
    return True


def exists(f, lo, hi):
    for k in range(lo, hi):
        if f(k):
            return True
    return False


def wire1(p):
    """Text-channel encoding of packet object p."""
    return wire(p.packet_type, p.data, True)


@recursive(returns='str', reads=['Packet.packet_type', 'Packet.data'])
def payload_text(packets, n):
    """The text-channel encodings of the first n packets joined by single U+001E separators."""
    if n <= 0:
        return ''
    if n == 1:
        return wire1(packets[0])
    return payload_text(packets, n - 1) + '\x1e' + wire1(packets[n - 1])


@opaque(returns='bool')
def packet_wf(t, d, binary, cache):
    return api_payload(t, d) and binary == is_bin(d) and cache_ok(cache, t, d)


def packet_ok(p):
    """What Packet.encode requires of a packet object (established by Packet.__init__ for the
    payloads the API accepts)."""
    return packet_wf(p.packet_type, p.data, p.binary, p.encode_cache)


def payload_body(s):
    """The text that is split into packets: the 'd' field of a form-encoded JSONP POST body."""
    if s.startswith('d='):
        return parse_qs(s)['d'][0]
    return s


@opaque(returns='bool')
def decoded_as(binary, t, d, cache, e):
    return binary == dec_binary(e) and t == dec_type(e) and d == dec_data(e) and cache is None


def packet_is(p, e):
    """Packet object p holds exactly what encoded packet e decodes to."""
    return decoded_as(p.binary, p.packet_type, p.data, p.encode_cache, e)


# --- C13 ---------------------------------------------------------------------------------------

def first_token(x):
    return x.split(',')[0].strip()


def default_origins(env):
    """The request's own scheme://host, also as seen through X-Forwarded-Proto/Host."""
    out = []
    if 'wsgi.url_scheme' in env and 'HTTP_HOST' in env:
        out.append(env['wsgi.url_scheme'] + '://' + env['HTTP_HOST'])
        if 'HTTP_X_FORWARDED_PROTO' in env or 'HTTP_X_FORWARDED_HOST' in env:
            out.append(
                first_token(env.get('HTTP_X_FORWARDED_PROTO', env['wsgi.url_scheme'])) + '://' +
                first_token(env.get('HTTP_X_FORWARDED_HOST', env['HTTP_HOST'])))
    return out


@opaque(returns='bool')
def origin_allowed(cfg, env, o):
    """Is origin o allowed by the configured policy cfg for the request env?"""
    if cfg is None:
        return o in default_origins(env)
    if cfg == '*':
        return True
    if isinstance(cfg, str):
        return o == cfg
    if callable(cfg):
        if cfg(o):
            return True
        return False
    return o in cfg


@opaque(returns='bool')
def origin_refused(cfg, env):
    """The origin gate: checking is active, an Origin header is present and it is not allowed."""
    if cfg == []:
        return False
    o = env.get('HTTP_ORIGIN')
    if not o:
        return False
    return not origin_allowed(cfg, env, o)


@opaque(returns='bool')
def acao_expected(cfg, env):
    """Access-Control-Allow-Origin is emitted exactly for an allowed request Origin."""
    if cfg == [] or 'HTTP_ORIGIN' not in env:
        return False
    return origin_allowed(cfg, env, env['HTTP_ORIGIN'])


# --- sessions, events, queues (C03-C07, C16) ----------------------------------------------------
# Ghost-log accessors (mk_event, ev_handler, ev_nargs, ev_arg0, ev_arg1, mk_task, dict_del,
# dict_set, handler_accepts) are verifier primitives; native stand-ins for replay:

def mk_event(h, n, a0, a1):
    return (h, n, a0, a1)


def ev_handler(e):
    return e[0]


def ev_nargs(e):
    return e[1]


def ev_arg0(e):
    return e[2]


def ev_arg1(e):
    return e[3]


def ping_expired(s, now):
    """The heartbeat deadline of socket s has passed at time `now` (strictly)."""
    if not s.last_ping:
        return False
    return now - s.last_ping > s.server.ping_timeout


def last_event_is(events, old_events, h, n, a0, a1):
    return len(events) == len(old_events) + 1 and \
        events[0:len(old_events)] == old_events and \
        events[len(old_events)] == mk_event(h, n, a0, a1)


def one_disconnect(events, old_events, h, sid, r):
    """Exactly one invocation of disconnect handler h for sid, with reason r (or, for a legacy
    one-argument handler, without); none only if h accepts neither call shape."""
    n = len(events) - len(old_events)
    if events[0:len(old_events)] != old_events:
        return False
    if handler_accepts(h, 2):
        return n == 1 and events[len(old_events)] == mk_event(h, 2, sid, r)
    if handler_accepts(h, 1):
        return n == 1 and events[len(old_events)] == mk_event(h, 1, sid, None)
    return n == 0


def handler_accepts(h, n):
    import inspect
    try:
        inspect.signature(h).bind(*([None] * n))
    except TypeError:
        return False
    return True


def appended_at_most_close(acc, old_acc, not_this):
    """The accepted log grew by nothing, or by exactly one fresh CLOSE packet."""
    if acc == old_acc:
        return True
    return len(acc) == len(old_acc) + 1 and acc[0:len(old_acc)] == old_acc and \
        acc[len(old_acc)].packet_type == 1 and acc[len(old_acc)] is not not_this and \
        fresh_obj(acc[len(old_acc)])


def is_handler_task(name):
    return name == 'run_handler' or name == 'run_async_handler' or name == 'run_sync_handler'


def one_task_spawned(spawned, old_spawned):
    return len(spawned) == len(old_spawned) + 1 and spawned[0:len(old_spawned)] == old_spawned


def task_name(t):
    return t[0]


# --- C06: the probe handshake over the ghost frame log -------------------------------------------

def mk_frame(out, data):
    return (out, data)


def frame_out(f):
    return f[0]


def frame_data(f):
    return f[1]


def decodes_to(e, t):
    """Inbound frame payload e (text or bytes) decodes to a packet of type t."""
    if e is None:
        return False
    return not dec_fails(e) and not dec_recursion(e) and dec_type(e) == t


def handshake_frames(log, n0):
    """The frames after position n0 start with: in PING 'probe', out PONG 'probe', in UPGRADE."""
    if len(log) < n0 + 3:
        return False
    f0 = log[n0]
    f1 = log[n0 + 1]
    f2 = log[n0 + 2]
    return (not frame_out(f0)) and decodes_to(frame_data(f0), 2) and \
        dec_data(frame_data(f0)) == 'probe' and \
        frame_out(f1) and frame_data(f1) == '3probe' and \
        (not frame_out(f2)) and decodes_to(frame_data(f2), 5)


@opaque(returns='bool')
def is_upgrade_request(environ, protocols):
    """The request asks for a transport upgrade (Connection: upgrade + Upgrade: <protocol>)."""
    connections = [s.strip() for s in environ.get('HTTP_CONNECTION', '').lower().split(',')]
    transport = environ.get('HTTP_UPGRADE', '').lower()
    return 'upgrade' in connections and transport in protocols


# --- responses (C11, C12, C15, C19) --------------------------------------------------------------

def json_text(v):
    """json.dumps(v) with the default separators (library function, assumed)."""
    return json.dumps(v)


def sock_wf(s):
    """Well-formedness of a socket object (what every socket method requires)."""
    return s.server.ping_timeout >= 0 and s.server.ping_interval >= 0 and \
        s.server.max_http_buffer_size >= 0 and \
        (s.last_ping is None or isinstance(s.last_ping, float)) and \
        s.queue.unf >= len(s.queue.items)


# --- C11: the OPEN handshake -----------------------------------------------------------------------

def upgrades_offered(server, sid_upgraded, transport):
    """WebSocket is named only when an upgrade would actually be accepted."""
    if server.allow_upgrades and 'websocket' in server.transports and \
            server._async['websocket'] is not None and not sid_upgraded and \
            transport != 'websocket':
        return ['websocket']
    return []


def open_info(server, sid, transport):
    """Content of the OPEN packet, from the configuration (milliseconds truncated)."""
    return {
        'sid': sid,
        'upgrades': upgrades_offered(server, False, transport),
        'pingTimeout': int(server.ping_timeout * 1000),
        'pingInterval': int((server.ping_interval + server.ping_interval_grace_period) * 1000),
        'maxPayload': server.max_http_buffer_size,
    }


def connect_accepted(ret):
    return ret is None or ret is True


def cookie_value(sid, attributes):
    """name=sid followed, in configuration order, by '; k' for True attributes, '; k=v' for
    string attributes (or a callable's string result); False attributes are omitted."""
    cookie = attributes.get('name', 'io') + '=' + sid
    for attribute, value in attributes.items():
        if attribute == 'name':
            continue
        if callable(value):
            value = value()
        if value is True:
            cookie += '; ' + attribute
        elif value is False:
            cookie += ''
        else:
            cookie += '; ' + attribute + '=' + value
    return cookie


def grows(log, old_log):
    """An append-only ghost log: the old content is a prefix of the new."""
    return len(log) >= len(old_log) and log[0:len(old_log)] == old_log


def all_values(d, f):
    for v in d.values():
        if not f(v):
            return False
    return True


# --- C12: request admission (DESIGN Appendix F) ---------------------------------------------------

def q_of(environ):
    return parse_qs(environ.get('QUERY_STRING', ''))


@opaque(returns='str')
def q_transport(environ):
    return q_of(environ).get('transport', ['polling'])[0]


@opaque(returns='any')
def q_sid(environ):
    q = q_of(environ)
    if 'sid' in q:
        return q['sid'][0]
    return None


def upgrade_header(environ):
    if 'HTTP_UPGRADE' in environ:
        return environ.get('HTTP_UPGRADE').lower()
    return None


def jsonp_bad(environ):
    q = q_of(environ)
    return 'j' in q and not int_ok(q['j'][0])


def live(server, sid):
    return sid in server.sockets and not server.sockets[sid].closed


@opaque(returns='int', reads=['BaseServer.transports', 'BaseServer.sockets', 'BaseSocket.closed', 'BaseSocket.upgraded'])
def refusal(server, environ):
    """0 = admitted; otherwise the refusal status (400 / 405) the statement prescribes."""
    method = environ['REQUEST_METHOD']
    t = q_transport(environ)
    sid = q_sid(environ)
    if t not in server.transports:
        return 400
    if sid is None and q_of(environ).get('EIO') != ['4']:
        return 400
    if jsonp_bad(environ):
        return 400
    if method == 'GET':
        if sid is None:
            if t == 'polling' or (t == 'websocket' and upgrade_header(environ) == 'websocket'):
                return 0
            return 400
        if not live(server, sid):
            return 400
        tr = 'websocket' if server.sockets[sid].upgraded else 'polling'
        if tr != t and t != upgrade_header(environ):
            return 400
        return 0
    if method == 'POST':
        if sid is None or not live(server, sid):
            return 400
        return 0
    if method == 'OPTIONS':
        return 0
    return 405


@opaque(returns='bool')
def is_websocket_request(server, environ):
    """Requests C15 exempts from the bounded-time / single-response clauses: WebSocket opens
    and upgrade requests (their response is produced by the WebSocket driver)."""
    if environ['REQUEST_METHOD'] != 'GET':
        return False
    sid = q_sid(environ)
    if sid is None:
        return q_transport(environ) == 'websocket'
    return is_upgrade_request(environ, ['websocket'])


def fresh_obj(x):
    """Verifier primitive (allocated during the call); natively not observable."""
    return True


# --- C20: middleware routing and static files -----------------------------------------------------

def has_dotdot(rest):
    """The relative path `rest` contains a '..' path segment."""
    return '..' in rest.split('/')


def norm_endpoint(ep):
    """The endpoint with a leading and a trailing slash."""
    if not ep.startswith('/'):
        ep = '/' + ep
    if not ep.endswith('/'):
        ep = ep + '/'
    return ep


# --- C19: response transformations -------------------------------------------------------------------

def offered(environ):
    """The content codings the request lists (parameters after ';' dropped, stripped)."""
    return [e.split(';')[0].strip() for e in environ.get('HTTP_ACCEPT_ENCODING', '').split(',')]


def supported(e):
    return e == 'gzip' or e == 'deflate'


def jsonp_body(index, text):
    """One complete call statement whose single argument is a JavaScript string literal with the
    value `text` (json.dumps of a str is such a literal: assumed library fact L-JSON-JS)."""
    return '___eio[' + str(index) + '](' + json.dumps(text) + ');'



# --- C08 / C09: clients ------------------------------------------------------------------------------

def engineio_url(scheme_in, netloc, query, engineio_path, transport):
    """The connection URL: http(s)/ws(s) by transport and security of the given scheme, the
    caller's netloc and query string kept, the endpoint without surrounding slashes, the transport
    and protocol version 4."""
    scheme = 'http' if transport == 'polling' else 'ws'
    if scheme_in == 'https' or scheme_in == 'wss':
        scheme = scheme + 's'
    return scheme + '://' + netloc + '/' + engineio_path.strip('/') + '/?' + query + \
        ('&' if query else '') + 'transport=' + transport + '&EIO=4'


# --- C03: the WebSocket writer ---------------------------------------------------------------------

def out_frames(log, n0):
    """Number of frames appended to the log since position n0 (the writer only writes)."""
    return len(log) - n0


def sent_frames_match(log, old_log, taken, old_taken):
    """The frames written since the start are, one for one and in order, the packets taken since
    the start - except that a failed send may leave the tail of the last batch unsent."""
    n = len(log) - len(old_log)
    m = len(taken) - len(old_taken)
    return grows(log, old_log) and grows(taken, old_taken) and n <= m and \
        forall(lambda k: frame_out(log[len(old_log) + k]) and
               frame_data(log[len(old_log) + k]) ==
               wire(taken[len(old_taken) + k].packet_type, taken[len(old_taken) + k].data, False),
               0, n)


def batch_frames_match(log, old_log, taken, old_taken, batch, j):
    """While a batch of `batch` packets (the last ones taken) is being written: all earlier
    packets and the first j of the batch have been written."""
    n = len(log) - len(old_log)
    m = len(taken) - len(old_taken)
    return grows(log, old_log) and grows(taken, old_taken) and n == m - batch + j and \
        forall(lambda k: frame_out(log[len(old_log) + k]) and
               frame_data(log[len(old_log) + k]) ==
               wire(taken[len(old_taken) + k].packet_type, taken[len(old_taken) + k].data, False),
               0, n)


def served_under(root, extra, filename):
    """C20: the file served for a request is the mapped root followed by the rest of the request
    path (one '/' is dropped when the root ends with one and the rest starts with one); what
    follows (an index file name) only extends it."""
    return filename.startswith(root + extra) or \
        (root.endswith('/') and extra.startswith('/') and filename.startswith(root + extra[1:]))


def served_from(static_files, key, extra, filename):
    return key in static_files and served_under(static_files[key], extra, filename)


def lifespan_answers(log, n0):
    """C20: what ASGIApp.lifespan sends after position n0: 'complete' for every startup, then at
    most one final message - startup failed, shutdown complete or shutdown failed."""
    n = len(log)
    if n < n0:
        return False
    if n == n0:
        return True
    return forall(lambda k: log[k] == 'lifespan.startup.complete', n0, n - 1) and \
        (log[n - 1] == 'lifespan.startup.complete' or log[n - 1] == 'lifespan.startup.failed' or
         log[n - 1] == 'lifespan.shutdown.complete' or log[n - 1] == 'lifespan.shutdown.failed')


def client_handler_task(name):
    """The background task a client starts to run an application handler: the handler itself
    (threaded client, asyncio client with a coroutine handler) or the asyncio client's wrapper
    coroutine around a plain function."""
    return name == 'handler' or name == 'async_handler'

