"""Contracts for the clients (C08, C09): the packet-level functions of base_client.BaseClient and
client.Client. The connect / read / write loops (network glue) are not under contract."""
from pyvc.contract import REG
from pyvc.values import *  # noqa

REG.schema('BaseClient', module='base_client', fields=dict(
    handlers=Dict(STR, Opaque('Handler')), base_url=ANY, transports=List(STR), current_transport=ANY,
    sid=ANY, upgrades=ANY, ping_interval=ANY, ping_timeout=ANY, http=Opaque('Http', True),
    external_http=BOOL, handle_sigint=BOOL, ws=Opaque('WS', True),
    read_loop_task=Opaque('Task', True), write_loop_task=Opaque('Task', True),
    queue=Ref('Queue', True), state=STR, ssl_verify=ANY, websocket_extra_options=ANY,
    timestamp_requests=BOOL, logger=Opaque('Logger'), request_timeout=REAL))
REG.schema('Client', module='client', base='BaseClient')
REG.schema('AsyncClient', module='async_client', base='BaseClient')

c = REG.contract('client.Client.start_background_task',
                 'async_client.AsyncClient.start_background_task')
c.trusted = True
c.libimpl = 'rt.spawn'
c.trusted_reason = 'thread / task creation (library contract: spawn)'

c = REG.contract('base_client.BaseClient._get_engineio_url', props=['C09'])
c.param('self', Ref('BaseClient')).param('url', STR).param('engineio_path', STR)
c.param('transport', STR)
c.returns(STR)
c.raises('ValueError', "transport != 'polling' and transport != 'websocket'")
c.ensures('version-4-endpoint-query-and-scheme', 'result == engineio_url(urlparse(url).scheme, '
          'urlparse(url).netloc, urlparse(url).query, engineio_path, transport)')

c = REG.contract('base_client.BaseClient._reset', props=['C08'])
c.param('self', Ref('BaseClient'))
c.ensures('clean-state', "self.state == 'disconnected' and self.sid is None")
c.modifies('self.state', 'self.sid')

c = REG.contract('async_client.AsyncClient._reset', props=['C08'])
c.param('self', Ref('AsyncClient'))
c.ensures('clean-state', "self.state == 'disconnected' and self.sid is None")
c.modifies('self.state', 'self.sid', 'ghost.now')

CLIENT_WF = ("(self.state == 'connected' or self.state == 'disconnecting' or "
             "self.state == 'disconnected') and implies(self.state == 'connected', "
             "self.queue is not None and self.queue.unf >= len(self.queue.items) and "
             "implies(self.current_transport == 'websocket', self.ws is not None))")
for cls, mod in (('Client', 'client'), ('AsyncClient', 'async_client')):
    c = REG.contract('%s.%s._send_packet' % (mod, cls), props=['C08', 'C09'])
    c.param('self', Ref(cls)).param('pkt', Ref('Packet'))
    c.requires(CLIENT_WF, 'client-wf')
    c.requires('0 <= pkt.packet_type and pkt.packet_type <= 6', 'packet-type')
    c.ensures('no-op-unless-connected', "implies(self.state != 'connected', "
              "unchanged('Queue.items', 'Queue.accepted'))", props=['C08'])
    c.ensures('queued-exactly-once-in-order', "implies(self.state == 'connected', "
              "self.queue.items == old(self.queue.items) + [pkt] and "
              "self.queue.accepted == old(self.queue.accepted) + [pkt])", props=['C09'])
    c.ensures('no-sentinel-queued', "implies(self.state == 'connected', "
              "self.queue.put_none == old(self.queue.put_none) and "
              "self.queue.unf >= len(self.queue.items))")
    c.modifies('self.queue.items', 'self.queue.unf', 'self.queue.accepted', 'self.queue.put_none')

for _cls, _mod in (('Client', 'client'), ('AsyncClient', 'async_client')):
    c = REG.contract('%s.%s._trigger_event' % (_mod, _cls), props=['C08', 'C09'])
    c.param('self', Ref(_cls)).param('event', STR)
    c.param('args', [Ty('tup', ANY), Ty('tup', STR), Ty('tup')])
    c.param('kwargs', Ty('rec', ('run_async', BOOL)))
    c.returns(ANY)
    c.ensures('unregistered-is-noop', 'implies(event not in self.handlers, result is None and '
              'events == old(events) and hresults == old(hresults) and spawned == old(spawned))')
    c.ensures('background-spawns-the-handler-once', "implies(event in self.handlers and "
              "kwargs['run_async'], events == old(events) and hresults == old(hresults) and "
              "one_task_spawned(spawned, old(spawned)) and "
              "client_handler_task(task_name(spawned[len(old(spawned))])))", props=['C09'])
    c.ensures('sync-invokes-once', "implies(event in self.handlers and not kwargs['run_async'] and "
              "len(args) == 1 and handler_accepts(self.handlers[event], 1), "
              "spawned == old(spawned) and "
              "last_event_is(events, old(events), self.handlers[event], 1, args[0], None))",
              props=['C08'])
    c.ensures('sync-invokes-once-without-arguments', "implies(event in self.handlers and "
              "not kwargs['run_async'] and len(args) == 0 and "
              "handler_accepts(self.handlers[event], 0), spawned == old(spawned) and "
              "last_event_is(events, old(events), self.handlers[event], 0, None, None))",
              props=['C08'])
    c.ensures('events-only-grow', 'grows(events, old(events))')
    c.modifies('ghost.events', 'ghost.hresults', 'ghost.spawned', 'ghost.now')

    c = REG.contract('%s.%s._receive_packet' % (_mod, _cls), props=['C09', 'C08'])
    c.param('self', Ref(_cls)).param('pkt', Ref('Packet'))
    c.requires(CLIENT_WF, 'client-wf')
    c.requires('0 <= pkt.packet_type and pkt.packet_type <= 9', 'decoded-type-digit')
    c.requires("pkt.packet_type == 4 or not is_bin(pkt.data)", 'decoded-payload')
    c.ensures('ping-answered-with-pong-carrying-the-same-data', "implies(pkt.packet_type == 2 and "
              "self.state == 'connected', len(self.queue.accepted) == "
              "len(old(self.queue.accepted)) + 1 and "
              "self.queue.accepted[len(old(self.queue.accepted))].packet_type == 3 and "
              "self.queue.accepted[len(old(self.queue.accepted))].data == pkt.data and "
              "events == old(events) and hresults == old(hresults))", props=['C09'])
    c.ensures('message-delivered-exactly-once', "implies(pkt.packet_type == 4 and "
              "'message' in self.handlers, events == old(events) and hresults == old(hresults) and "
              "one_task_spawned(spawned, old(spawned)) and "
              "client_handler_task(task_name(spawned[len(old(spawned))])) and "
              "self.state == old(self.state))", props=['C09'])
    c.ensures('noop-and-unknown-types-do-nothing', "implies(pkt.packet_type not in (1, 2, 4), "
              "events == old(events) and hresults == old(hresults) and spawned == old(spawned) and "
              "self.state == old(self.state) and unchanged('Queue.items'))", props=['C09'])
    c.ensures('close-disconnects-with-server-reason', "implies(pkt.packet_type == 1 and "
              "old(self.state) == 'connected', self.state == 'disconnected' and self.sid is None)",
              props=['C08', 'C09'])
    c.ensures('close-fires-one-disconnect-event-with-the-server-reason',
              "implies(pkt.packet_type == 1 and old(self.state) == 'connected' and "
              "'disconnect' in self.handlers and handler_accepts(self.handlers['disconnect'], 1), "
              "last_event_is(events, old(events), self.handlers['disconnect'], 1, "
              "'server disconnect', None))", props=['C08'])
    c.ensures('only-close-fires-an-event', "implies(pkt.packet_type != 1 or "
              "old(self.state) != 'connected', events == old(events))", props=['C08'])
    c.ensures('never-connects', "implies(old(self.state) != 'connected', "
              "self.state != 'connected')", props=['C08'])
    c.ensures('events-only-grow', 'grows(events, old(events))')
    c.ensures('state-changes-only-on-close', "implies(pkt.packet_type != 1, "
              "self.state == old(self.state) and self.sid == old(self.sid))", props=['C08'])
    c.ensures('client-stays-wf', "(self.state == 'connected' or self.state == 'disconnecting' or "
              "self.state == 'disconnected') and implies(self.state == 'connected', "
              "self.queue.unf >= len(self.queue.items))")
    c.modifies('self.state', 'self.sid', 'self.queue.items', 'self.queue.unf',
               'self.queue.accepted', 'self.queue.put_none', 'ghost.events', 'ghost.hresults',
               'ghost.spawned', 'ghost.now')

    c = REG.contract('%s.%s.send' % (_mod, _cls), props=['C08', 'C09'])
    c.param('self', Ref(_cls)).param('data', ANY)
    c.requires(CLIENT_WF, 'client-wf')
    c.requires('api_payload(4, data)', 'api-payload')
    c.ensures('harmless-when-not-connected', "implies(self.state != 'connected', "
              "unchanged('Queue.items', 'Queue.accepted') and events == old(events) and hresults == old(hresults))", props=['C08'])
    c.ensures('one-message-queued', "implies(self.state == 'connected', "
              "len(self.queue.accepted) == len(old(self.queue.accepted)) + 1 and "
              "self.queue.accepted[len(old(self.queue.accepted))].packet_type == 4 and "
              "self.queue.accepted[len(old(self.queue.accepted))].data == data)", props=['C09'])
    c.modifies('self.queue.items', 'self.queue.unf', 'self.queue.accepted', 'self.queue.put_none')

    c = REG.contract('%s.%s.disconnect' % (_mod, _cls), props=['C08'])
    c.param('self', Ref(_cls)).param('abort', BOOL).param('reason', [NONE, STR])
    c.requires(CLIENT_WF, 'client-wf')
    c.ensures('always-ends-disconnected-and-reusable', "self.state == 'disconnected' and "
              "self.sid is None")
    c.ensures('events-only-grow', 'grows(events, old(events))')
    c.ensures('harmless-when-not-connected', "implies(old(self.state) != 'connected', "
              "events == old(events) and hresults == old(hresults) and unchanged('Queue.items', 'Queue.accepted'))")
    c.ensures('exactly-one-disconnect-event-with-the-reason', "implies(old(self.state) == "
              "'connected' and 'disconnect' in self.handlers and "
              "handler_accepts(self.handlers['disconnect'], 1), last_event_is(events, old(events), "
              "self.handlers['disconnect'], 1, reason or 'client disconnect', None))")
    c.ensures('close-then-sentinel-queued', "implies(old(self.state) == 'connected', "
              "len(self.queue.accepted) == len(old(self.queue.accepted)) + 1 and "
              "self.queue.accepted[len(old(self.queue.accepted))].packet_type == 1 and "
              "self.queue.put_none == old(self.queue.put_none) + 1)")
    c.modifies('self.state', 'self.sid', 'self.queue.items', 'self.queue.unf',
               'self.queue.accepted', 'self.queue.put_none', 'ghost.events', 'ghost.hresults',
               'ghost.spawned', 'ghost.now')

# ----------------------------------------------------------------- the write loop (C09, C10)
# Client._write_loop: takes everything that is queued, transmits it once and in order on the
# transport in use, marks it done. On polling one POST carries the whole batch (C10: the server
# accepts at most 16 packets per body - obligation post-batch-within-server-limit).
for _cls, _mod in (('Client', 'client'), ('AsyncClient', 'async_client')):
    c = REG.contract('%s.%s._send_request' % (_mod, _cls))
    c.trusted = True
    c.libimpl = 'rt.http_request'
    c.trusted_reason = 'requests.Session.request (HTTP library; library contract: rt.http_request)'

    c = REG.contract('%s.%s._write_loop' % (_mod, _cls), props=['C09', 'C10'])
    c.param('self', Ref(_cls))
    c.requires("self.queue is not None and self.queue.unf >= len(self.queue.items) and "
               "implies(self.current_transport != 'polling', self.ws is not None)", 'client-wf')
    c.requires("isinstance(self.ping_interval, float) and isinstance(self.ping_timeout, float) and "
               "isinstance(self.base_url, str)", 'timing-adopted-from-open')
    c.queue_rely('x is None or packet_ok(x)',
                 'guarantee side: precondition packet-wf of _send_packet, proved at its call sites')
    c.may_raise('Exception', "self.current_transport != 'polling'", label='websocket-library-error')
    W_MOD = ['self.queue.items', 'self.queue.unf', 'self.queue.taken', 'self.queue.accepted',
             'self.queue.put_none', 'self.queue.taken_none', 'self.write_loop_task', 'ghost.now',
             'ghost.http_bodies', 'ghost.ws_log', 'Packet.encode_cache', 'new Payload.packets']
    c.modifies(*W_MOD)
    c.ensures('taken-only-grows', 'grows(self.queue.taken, old(self.queue.taken))', props=['C09'])
    c.loop(0, invariants=[
        ('taken-only-grows', 'grows(self.queue.taken, old(self.queue.taken))'),
        ('queue-wf', 'self.queue is not None and self.queue.unf >= len(self.queue.items)'),
        ('transport-object', "implies(self.current_transport != 'polling', self.ws is not None)")],
        modifies=['packets', 'timeout', 'p', 'r', 'pkt', 'encoded_packet'] + W_MOD)
    c.ghost_before('timeout = max(self.ping_interval, self.ping_timeout) + 5', 'taken0',
                   'self.queue.taken')
    c.loop(1, invariants=[
        ('batch-is-what-was-taken', 'self.queue.taken == taken0 + packets'),
        ('no-sentinel-in-batch', 'forall(lambda k: packets[k] is not None and packet_ok(packets[k]), '
         '0, len(packets))'),
        ('queue-wf', 'self.queue is not None and self.queue.unf >= len(self.queue.items) + len(packets)')],
        modifies=['packets', 'self.queue.items', 'self.queue.unf', 'self.queue.taken',
                  'self.queue.taken_none', 'ghost.now'])
    c.check_before('if not packets:', 'batch-is-exactly-what-was-taken-in-order',
                   'self.queue.taken == taken0 + packets and '
                   'forall(lambda k: packets[k] is not None, 0, len(packets))', props=['C09', 'C10'])
    c.ghost_before('timeout = max(self.ping_interval, self.ping_timeout) + 5', 'bodies0',
                   'http_bodies')
    c.check_before("if self.current_transport == 'polling':", 'post-batch-within-server-limit',
                   "implies(self.current_transport == 'polling', len(packets) <= 16)", props=['C10'])
    c.check_before('for pkt in packets: self.queue.task_done()', 'one-post-carries-the-batch-in-order',
                   'len(http_bodies) == len(bodies0) + 1 and '
                   'http_bodies[0:len(bodies0)] == bodies0 and '
                   'http_bodies[len(bodies0)] == payload_text(packets, len(packets))',
                   props=['C09', 'C10'])
    c.loop(2, index='j', invariants=[
        ('every-packet-of-the-batch-is-marked-done-once',
         'self.queue is not None and self.queue.unf >= len(self.queue.items) + len(packets) - j')],
        modifies=['pkt', 'self.queue.unf'])
    c.ghost_before('try: for pkt in packets: encoded_packet = pkt.encode()' if _cls == 'Client' else
                   'try: for pkt in packets: if pkt.binary:', 'ws0', 'ws_log')
    c.loop(3, index='j', invariants=[
        ('done-so-far', 'self.queue is not None and self.ws is not None and '
         'self.queue.unf >= len(self.queue.items) + len(packets) - j'),
        ('one-frame-per-packet-in-order', 'len(ws_log) == len(ws0) + j and grows(ws_log, ws0) and '
         'forall(lambda k: frame_out(ws_log[len(ws0) + k]) and frame_data(ws_log[len(ws0) + k]) == '
         'wire(packets[k].packet_type, packets[k].data, False), 0, j)'),
        ('batch-wf', 'forall(lambda k: packets[k] is not None and packet_ok(packets[k]), 0, len(packets))')],
        modifies=['pkt', 'encoded_packet', 'self.queue.unf', 'ghost.ws_log', 'ghost.now',
                  'Packet.encode_cache'], props=['C09'])

# ------------------------------------------------------------- the polling read loop (C08, C09)
# Ends the connection it served: when it returns the client is no longer 'connected'; if nothing
# else ended the connection first it fires exactly one disconnect event with reason
# 'transport error' and resets; a CLOSE packet ends it with 'server disconnect' (inside
# _receive_packet); no other synchronous event is fired by this loop.
c = REG.contract('base_client.BaseClient._get_url_timestamp')
c.trusted = True
c.trusted_reason = "query-string suffix '' or '&t=<clock>' (no state)"
c.param('self', Ref('BaseClient'))
c.returns(STR)

DISC_H = ("'disconnect' in self.handlers and handler_accepts(self.handlers['disconnect'], 1)")
for _cls, _mod in (('Client', 'client'), ('AsyncClient', 'async_client')):
    c = REG.contract('%s.%s._read_loop_polling' % (_mod, _cls), props=['C08', 'C09'])
    c.param('self', Ref(_cls))
    c.requires("self.queue is not None and self.queue.unf >= len(self.queue.items) and "
               "(self.state == 'connected' or self.state == 'disconnecting' or "
               "self.state == 'disconnected') and self.read_loop_task is not None and "
               "implies(self.current_transport == 'websocket', self.ws is not None)", 'client-wf')
    c.requires("isinstance(self.ping_interval, float) and isinstance(self.ping_timeout, float) and "
               "isinstance(self.base_url, str)", 'timing-adopted-from-open')
    c.ensures('connection-is-over', "self.state != 'connected'", props=['C08'])
    # (sequential model: nothing but this loop changes the client's state while it runs)
    c.ensures('exactly-one-disconnect-event-with-a-true-reason', 'implies(' + DISC_H + ", "
              "(old(self.state) != 'connected' and events == old(events)) or "
              "(old(self.state) == 'connected' and (last_event_is(events, old(events), "
              "self.handlers['disconnect'], 1, 'transport error', None) or "
              "last_event_is(events, old(events), self.handlers['disconnect'], 1, "
              "'server disconnect', None))))", props=['C08'])
    # the connection this loop ends itself is reported once, as a transport error, before the reset
    c.check_before('self._reset()' if _cls == 'Client' else 'await self._reset()', 'transport-error-event-fired-before-reset', 'implies(' + DISC_H +
                   ", last_event_is(events, old(events), self.handlers['disconnect'], 1, "
                   "'transport error', None))", props=['C08'])
    R_MOD = ['self.state', 'self.sid', 'self.queue.items', 'self.queue.unf', 'self.queue.accepted',
             'self.queue.put_none', 'ghost.events', 'ghost.hresults', 'ghost.spawned', 'ghost.now',
             'ghost.http_bodies', 'new Payload.packets', 'new Packet.binary', 'new Packet.packet_type',
             'new Packet.data', 'new Packet.encode_cache']
    c.modifies(*R_MOD)
    c.loop(0, invariants=[
        ('wf', "(self.state == 'connected' or self.state == 'disconnecting' or "
         "self.state == 'disconnected') and self.read_loop_task is not None and "
         "implies(self.state == 'connected', self.queue.unf >= len(self.queue.items))"),
        ('no-event-while-connected', "implies(self.state == 'connected', events == old(events) "
         "and old(self.state) == 'connected')"),
        ('ended-by-close-only', 'implies(' + DISC_H + " and self.state != 'connected', "
         "(old(self.state) != 'connected' and events == old(events)) or "
         "(old(self.state) == 'connected' and last_event_is(events, old(events), "
         "self.handlers['disconnect'], 1, 'server disconnect', None)))")],
        modifies=['r', 'p', 'pkt'] + R_MOD)
    c.loop(1, index='j', invariants=[
        ('wf', "(self.state == 'connected' or self.state == 'disconnecting' or "
         "self.state == 'disconnected') and self.read_loop_task is not None and "
         "implies(self.state == 'connected', self.queue.unf >= len(self.queue.items))"),
        ('no-event-while-connected', "implies(self.state == 'connected', events == old(events) "
         "and old(self.state) == 'connected')"),
        ('ended-by-close-only', 'implies(' + DISC_H + " and self.state != 'connected', "
         "(old(self.state) != 'connected' and events == old(events)) or "
         "(old(self.state) == 'connected' and last_event_is(events, old(events), "
         "self.handlers['disconnect'], 1, 'server disconnect', None)))"),
        ('decoded-packets', 'forall(lambda k: p.packets[k] is not None and '
         '0 <= p.packets[k].packet_type and p.packets[k].packet_type <= 9 and '
         '(p.packets[k].packet_type == 4 or not is_bin(p.packets[k].data)), 0, len(p.packets))')],
        modifies=['pkt'] + R_MOD)

# ------------------------------------------------------------ the WebSocket read loop (C08)
for _cls, _mod in (('Client', 'client'), ('AsyncClient', 'async_client')):
    c = REG.contract('%s.%s._read_loop_websocket' % (_mod, _cls), props=['C08', 'C09'])
    c.param('self', Ref(_cls))
    c.requires("self.queue is not None and self.queue.unf >= len(self.queue.items) and "
               "(self.state == 'connected' or self.state == 'disconnecting' or "
               "self.state == 'disconnected') and self.read_loop_task is not None and "
               "self.ws is not None", 'client-wf')
    if _cls == 'Client':
        c.abstract('if type(e) is OSError and e.errno == 9:',
                   'chooses between two log messages only')
    else:
        c.abstract("self.logger.warning('Server sent %s packet data %s, aborting',",
                   'log message only (names the aiohttp message type)')
        c.requires("isinstance(self.ping_interval, float) and isinstance(self.ping_timeout, float)",
                   'timing-adopted-from-open')
    c.ensures('connection-is-over', "self.state != 'connected'", props=['C08'])
    # (sequential model: nothing but this loop changes the client's state while it runs)
    c.ensures('exactly-one-disconnect-event-with-a-true-reason', 'implies(' + DISC_H + ", "
              "(old(self.state) != 'connected' and events == old(events)) or "
              "(old(self.state) == 'connected' and (last_event_is(events, old(events), "
              "self.handlers['disconnect'], 1, 'transport error', None) or "
              "last_event_is(events, old(events), self.handlers['disconnect'], 1, "
              "'server disconnect', None))))", props=['C08'])
    c.check_before('self._reset()' if _cls == 'Client' else 'await self._reset()',
                   'transport-error-event-fired-before-reset', 'implies(' + DISC_H +
                   ", last_event_is(events, old(events), self.handlers['disconnect'], 1, "
                   "'transport error', None))", props=['C08'])
    RW_MOD = ['self.state', 'self.sid', 'self.queue.items', 'self.queue.unf', 'self.queue.accepted',
              'self.queue.put_none', 'ghost.events', 'ghost.hresults', 'ghost.spawned', 'ghost.now',
              'ghost.ws_log', 'new Packet.binary', 'new Packet.packet_type', 'new Packet.data',
              'new Packet.encode_cache']
    c.modifies(*RW_MOD)
    c.loop(0, invariants=[
        ('wf', "(self.state == 'connected' or self.state == 'disconnecting' or "
         "self.state == 'disconnected') and self.read_loop_task is not None and "
         "implies(self.state == 'connected', self.queue.unf >= len(self.queue.items))"),
        ('no-event-while-connected', "implies(self.state == 'connected', events == old(events) "
         "and old(self.state) == 'connected')"),
        ('ended-by-close-only', 'implies(' + DISC_H + " and self.state != 'connected', "
         "(old(self.state) != 'connected' and events == old(events)) or "
         "(old(self.state) == 'connected' and last_event_is(events, old(events), "
         "self.handlers['disconnect'], 1, 'server disconnect', None)))")],
        modifies=['p', 'pkt', 'e'] + RW_MOD)

# -------------------------------------------------------------------- _connect_polling (C08)
# connect() = argument checks + queue creation + _connect_<transport>. The polling handshake either
# raises ConnectionError (refused, non-2xx, undecodable, non-OPEN) leaving the client disconnected,
# or establishes the session: connect handler once, first; then the rest of the first payload is
# dispatched and - unless the WebSocket upgrade took over - both loops are started.
for _cls, _mod in (('Client', 'client'), ('AsyncClient', 'async_client')):
    c = REG.contract('%s.%s._connect_websocket' % (_mod, _cls))
    c.trusted = True
    c.trusted_reason = ('WebSocket connection set-up and probe upgrade over websocket-client (cookie / '
                        'auth / proxy / TLS option plumbing): ASSUMED contract - returns a bool; False '
                        'leaves session state, events and tasks unchanged')
    c.param('self', Ref(_cls)).param('url', STR).param('headers', Dict(STR, STR))
    c.param('engineio_path', STR)
    c.returns(BOOL)
    c.ensures('false-changes-nothing', "implies(not result, self.state == old(self.state) and "
              "self.sid == old(self.sid) and events == old(events) and hresults == old(hresults) and "
              "spawned == old(spawned) and unchanged('Queue.items', 'Queue.accepted', 'Queue.unf'))")
    c.ensures('events-only-grow', 'grows(events, old(events)) and grows(spawned, old(spawned))')
    c.modifies('self.state', 'self.sid', 'self.current_transport', 'self.ws', 'self.base_url',
               'self.read_loop_task', 'self.write_loop_task', 'self.ssl_verify', 'ghost.events',
               'ghost.hresults', 'ghost.spawned', 'ghost.now', 'ghost.ws_log', 'self.queue.items',
               'self.queue.unf', 'self.queue.accepted', 'self.queue.put_none')

    c = REG.contract('%s.%s._connect_polling' % (_mod, _cls), props=['C08', 'C09'])
    c.param('self', Ref(_cls)).param('url', STR).param('headers', Dict(STR, STR))
    c.param('engineio_path', STR)
    c.requires("self.state == 'disconnected' and self.sid is None and self.queue is not None and "
               "self.queue.unf >= len(self.queue.items) and len(self.queue.items) == 0", 'fresh-connect')
    c.abstract('if requests is None:' if _cls == 'Client' else 'if aiohttp is None:',
               'optional-dependency guard (the HTTP library is a library contract here)')
    NOT_CONNECTED = ("self.state == 'disconnected' and self.sid is None and events == old(events) and "
                     "hresults == old(hresults) and spawned == old(spawned)")
    c.may_raise('ConnectionError', 'True', label='refused-bad-status-undecodable-or-not-open',
                ensures=[('client-left-disconnected-and-reusable', NOT_CONNECTED)], props=['C08'])
    c.ensures('connect-handler-first-and-once', "implies('connect' in self.handlers and "
              "handler_accepts(self.handlers['connect'], 0), len(events) >= len(old(events)) + 1 and "
              "events[0:len(old(events))] == old(events) and "
              "events[len(old(events))] == mk_event(self.handlers['connect'], 0, None, None))",
              props=['C08'])
    c.ensures('events-only-grow', 'grows(events, old(events))')
    # the many paths through the decoding of the OPEN packet join before the session is established
    c.cut("self.state = 'connected'", [
        ('nothing-visible-yet', "self.state == 'disconnected' and events == old(events) and "
         "hresults == old(hresults) and spawned == old(spawned) and "
         "unchanged('Queue.items', 'Queue.accepted', 'Queue.unf', 'Queue.put_none')"),
        ('sid-adopted-as-text', 'isinstance(self.sid, str) and isinstance(self.base_url, str) and '
         "self.current_transport == 'polling'"),
        ('timing-adopted', 'isinstance(self.ping_interval, float) and '
         'isinstance(self.ping_timeout, float)'),
        ('queue-wf', 'self.queue is not None and self.queue.unf >= len(self.queue.items)'),
        ('decoded-packets', 'len(p.packets) >= 1 and forall(lambda k: 0 <= p.packets[k].packet_type '
         'and p.packets[k].packet_type <= 9 and (p.packets[k].packet_type == 4 or '
         'not is_bin(p.packets[k].data)), 0, len(p.packets))')])
    CP_MOD = ['self.state', 'self.sid', 'self.upgrades', 'self.ping_interval', 'self.ping_timeout',
              'self.current_transport', 'self.base_url', 'self.ws', 'self.read_loop_task',
              'self.write_loop_task', 'self.ssl_verify', 'self.queue.items', 'self.queue.unf',
              'self.queue.accepted', 'self.queue.put_none', 'ghost.events', 'ghost.hresults',
              'ghost.spawned', 'ghost.now', 'ghost.http_bodies', 'ghost.ws_log', 'new Payload.packets',
              'new Packet.binary', 'new Packet.packet_type', 'new Packet.data',
              'new Packet.encode_cache']
    c.modifies(*CP_MOD)
    c.loop(0, index='j', invariants=[
        ('wf', "(self.state == 'connected' or self.state == 'disconnecting' or "
         "self.state == 'disconnected') and self.current_transport == 'polling' and "
         "implies(self.state == 'connected', self.queue.unf >= len(self.queue.items))"),
        ('connect-handler-first', "implies('connect' in self.handlers and "
         "handler_accepts(self.handlers['connect'], 0), len(events) >= len(old(events)) + 1 and "
         "events[0:len(old(events))] == old(events) and "
         "events[len(old(events))] == mk_event(self.handlers['connect'], 0, None, None))"),
        ('events-only-grow', 'grows(events, old(events))'),
        ('decoded-packets', 'forall(lambda k: 0 <= xs0[k].packet_type and '
         'xs0[k].packet_type <= 9 and (xs0[k].packet_type == 4 or '
         'not is_bin(xs0[k].data)), 0, len(xs0))')],
        modifies=['pkt', 'self.state', 'self.sid', 'self.queue.items', 'self.queue.unf',
                  'self.queue.accepted', 'self.queue.put_none', 'ghost.events', 'ghost.hresults',
                  'ghost.spawned', 'ghost.now'])

c = REG.contract('client.Client.create_queue', 'async_client.AsyncClient.create_queue')
c.trusted = True
c.libimpl = 'asyncio.Queue'
c.trusted_reason = ('queue.Queue() / asyncio.Queue() with the library Empty exception class stored '
                    'on it (library contract: a new empty queue)')

# ----------------------------------------------------------------------------- connect (C08)
for _cls, _mod in (('Client', 'client'), ('AsyncClient', 'async_client')):
    c = REG.contract('%s.%s.connect' % (_mod, _cls), props=['C08'])
    c.param('self', Ref(_cls)).param('url', STR).param('headers', [NONE, Dict(STR, STR)])
    c.param('transports', [NONE, STR, List(STR)]).param('engineio_path', STR)
    c.returns(ANY)
    if _cls == 'AsyncClient':
        c.abstract('if self.handle_sigint and',
                   'installs the process-wide SIGINT handler once (no client state)')
    c.requires("self.sid is None or self.state != 'disconnected'", 'reset-left-no-sid')
    c.may_raise('ValueError', "self.state != 'disconnected' or transports is not None",
                label='not-disconnected-or-no-valid-transport',
                ensures=[('nothing-changes', "self.state == old(self.state) and "
                          "self.sid == old(self.sid) and events == old(events) and "
                          "spawned == old(spawned)")], props=['C08'])
    c.ensures('only-from-the-disconnected-state', "old(self.state) == 'disconnected'",
              props=['C08'])
    c.may_raise('ConnectionError', "self.state == 'disconnected'", label='server-refused',
                ensures=[('client-left-disconnected-and-reusable', NOT_CONNECTED)], props=['C08'])
    c.ensures('events-only-grow', 'grows(events, old(events))')
    c.modifies('self.transports', 'self.queue', *CP_MOD)
    c.loop(0, index='i', invariants=[
        ('kept-are-valid', "forall(lambda k: comp[k] == 'polling' or comp[k] == 'websocket', 0, "
         "len(comp))")], elem_ty=STR)
