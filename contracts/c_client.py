"""Contracts for the clients (C08, C09): the packet-level functions of base_client.BaseClient and
client.Client. The connect / read / write loops (network glue) are not under contract."""
from pyvc.contract import REG
from pyvc.values import *  # noqa

REG.schema('BaseClient', module='base_client', fields=dict(
    handlers=Dict(STR, Opaque('Handler')), base_url=ANY, transports=ANY, current_transport=ANY,
    sid=ANY, upgrades=ANY, ping_interval=ANY, ping_timeout=ANY, http=Opaque('Http', True),
    external_http=BOOL, handle_sigint=BOOL, ws=Opaque('WS', True),
    read_loop_task=Opaque('Task', True), write_loop_task=Opaque('Task', True),
    queue=Ref('Queue', True), state=STR, ssl_verify=ANY, websocket_extra_options=ANY,
    timestamp_requests=BOOL, logger=Opaque('Logger'), request_timeout=REAL))
REG.schema('Client', module='client', base='BaseClient')
REG.schema('AsyncClient', module='async_client', base='BaseClient')

c = REG.contract('client.Client.start_background_task',
                 'async_client.AsyncClient.start_background_task')
c.trusted = True
c.libimpl = 'rt.spawn'
c.trusted_reason = 'thread / task creation (library contract: spawn)'

c = REG.contract('base_client.BaseClient._get_engineio_url', props=['C09'])
c.param('self', Ref('BaseClient')).param('url', STR).param('engineio_path', STR)
c.param('transport', STR)
c.returns(STR)
c.raises('ValueError', "transport != 'polling' and transport != 'websocket'")
c.ensures('version-4-endpoint-query-and-scheme', 'result == engineio_url(urlparse(url).scheme, '
          'urlparse(url).netloc, urlparse(url).query, engineio_path, transport)')

c = REG.contract('base_client.BaseClient._reset', props=['C08'])
c.param('self', Ref('BaseClient'))
c.ensures('clean-state', "self.state == 'disconnected' and self.sid is None")
c.modifies('self.state', 'self.sid')

CLIENT_WF = ("(self.state == 'connected' or self.state == 'disconnecting' or "
             "self.state == 'disconnected') and implies(self.state == 'connected', "
             "self.queue is not None and self.queue.unf >= len(self.queue.items) and "
             "implies(self.current_transport == 'websocket', self.ws is not None))")
for cls, mod in (('Client', 'client'), ('AsyncClient', 'async_client')):
    c = REG.contract('%s.%s._send_packet' % (mod, cls), props=['C08', 'C09'])
    c.param('self', Ref(cls)).param('pkt', Ref('Packet'))
    c.requires(CLIENT_WF, 'client-wf')
    c.requires('0 <= pkt.packet_type and pkt.packet_type <= 6', 'packet-type')
    c.ensures('no-op-unless-connected', "implies(self.state != 'connected', "
              "unchanged('Queue.items', 'Queue.accepted'))", props=['C08'])
    c.ensures('queued-exactly-once-in-order', "implies(self.state == 'connected', "
              "self.queue.items == old(self.queue.items) + [pkt] and "
              "self.queue.accepted == old(self.queue.accepted) + [pkt])", props=['C09'])
    c.ensures('no-sentinel-queued', "implies(self.state == 'connected', "
              "self.queue.put_none == old(self.queue.put_none) and "
              "self.queue.unf >= len(self.queue.items))")
    c.modifies('self.queue.items', 'self.queue.unf', 'self.queue.accepted', 'self.queue.put_none')

c = REG.contract('client.Client._trigger_event', props=['C08', 'C09'])
c.param('self', Ref('Client')).param('event', STR)
c.param('args', [Ty('tup', ANY), Ty('tup', STR), Ty('tup')])
c.param('kwargs', Ty('rec', ('run_async', BOOL)))
c.returns(ANY)
c.ensures('unregistered-is-noop', 'implies(event not in self.handlers, result is None and '
          'events == old(events) and hresults == old(hresults) and spawned == old(spawned))')
c.ensures('background-spawns-the-handler-once', "implies(event in self.handlers and "
          "kwargs['run_async'], events == old(events) and hresults == old(hresults) and "
          "spawned == old(spawned) + [mk_task('handler', self.handlers[event])])", props=['C09'])
c.ensures('sync-invokes-once', "implies(event in self.handlers and not kwargs['run_async'] and "
          "len(args) == 1 and handler_accepts(self.handlers[event], 1), "
          "spawned == old(spawned) and "
          "last_event_is(events, old(events), self.handlers[event], 1, args[0], None))",
          props=['C08'])
c.ensures('events-only-grow', 'grows(events, old(events))')
c.modifies('ghost.events', 'ghost.hresults', 'ghost.spawned', 'ghost.now')

c = REG.contract('client.Client._receive_packet', props=['C09', 'C08'])
c.param('self', Ref('Client')).param('pkt', Ref('Packet'))
c.requires(CLIENT_WF, 'client-wf')
c.requires('0 <= pkt.packet_type and pkt.packet_type <= 9', 'decoded-type-digit')
c.requires("api_payload(3, pkt.data)", 'decoded-payload')
c.requires("implies(self.state == 'connected', self.read_loop_task is not None)",
           'loops-running-while-connected')
c.ensures('ping-answered-with-pong-carrying-the-same-data', "implies(pkt.packet_type == 2 and "
          "self.state == 'connected', len(self.queue.accepted) == "
          "len(old(self.queue.accepted)) + 1 and "
          "self.queue.accepted[len(old(self.queue.accepted))].packet_type == 3 and "
          "self.queue.accepted[len(old(self.queue.accepted))].data == pkt.data and "
          "events == old(events) and hresults == old(hresults))", props=['C09'])
c.ensures('message-delivered-exactly-once', "implies(pkt.packet_type == 4 and "
          "'message' in self.handlers, events == old(events) and hresults == old(hresults) and "
          "spawned == old(spawned) + [mk_task('handler', self.handlers['message'])] and "
          "self.state == old(self.state))", props=['C09'])
c.ensures('noop-and-unknown-types-do-nothing', "implies(pkt.packet_type not in (1, 2, 4), "
          "events == old(events) and hresults == old(hresults) and spawned == old(spawned) and "
          "self.state == old(self.state) and unchanged('Queue.items'))", props=['C09'])
c.ensures('close-disconnects-with-server-reason', "implies(pkt.packet_type == 1 and "
          "old(self.state) == 'connected', self.state == 'disconnected' and self.sid is None)",
          props=['C08', 'C09'])
c.modifies('self.state', 'self.sid', 'self.queue.items', 'self.queue.unf',
           'self.queue.accepted', 'self.queue.put_none', 'ghost.events', 'ghost.hresults',
           'ghost.spawned', 'ghost.now')

c = REG.contract('client.Client.send', props=['C08', 'C09'])
c.param('self', Ref('Client')).param('data', ANY)
c.requires(CLIENT_WF, 'client-wf')
c.requires('api_payload(4, data)', 'api-payload')
c.ensures('harmless-when-not-connected', "implies(self.state != 'connected', "
          "unchanged('Queue.items', 'Queue.accepted') and events == old(events) and hresults == old(hresults))", props=['C08'])
c.ensures('one-message-queued', "implies(self.state == 'connected', "
          "len(self.queue.accepted) == len(old(self.queue.accepted)) + 1 and "
          "self.queue.accepted[len(old(self.queue.accepted))].packet_type == 4 and "
          "self.queue.accepted[len(old(self.queue.accepted))].data == data)", props=['C09'])
c.modifies('self.queue.items', 'self.queue.unf', 'self.queue.accepted', 'self.queue.put_none')

c = REG.contract('client.Client.disconnect', props=['C08'])
c.param('self', Ref('Client')).param('abort', BOOL).param('reason', [NONE, STR])
c.requires(CLIENT_WF, 'client-wf')
c.ensures('always-ends-disconnected-and-reusable', "self.state == 'disconnected' and "
          "self.sid is None")
c.ensures('harmless-when-not-connected', "implies(old(self.state) != 'connected', "
          "events == old(events) and hresults == old(hresults) and unchanged('Queue.items', 'Queue.accepted'))")
c.ensures('exactly-one-disconnect-event-with-the-reason', "implies(old(self.state) == "
          "'connected' and 'disconnect' in self.handlers and "
          "handler_accepts(self.handlers['disconnect'], 1), last_event_is(events, old(events), "
          "self.handlers['disconnect'], 1, reason or 'client disconnect', None))")
c.ensures('close-then-sentinel-queued', "implies(old(self.state) == 'connected', "
          "len(self.queue.accepted) == len(old(self.queue.accepted)) + 1 and "
          "self.queue.accepted[len(old(self.queue.accepted))].packet_type == 1 and "
          "self.queue.put_none == old(self.queue.put_none) + 1)")
c.modifies('self.state', 'self.sid', 'self.queue.items', 'self.queue.unf',
           'self.queue.accepted', 'self.queue.put_none', 'ghost.events', 'ghost.hresults',
           'ghost.spawned', 'ghost.now')
