"""Class schemas: field -> static type. Checked against the real classes on every run
(every `self.x = ...` in the real source must name a declared field)."""
from pyvc.contract import REG
from pyvc.values import *  # noqa

REG.schema('Packet', module='packet', fields=dict(
    packet_type=INT, data=ANY, binary=BOOL, encode_cache=ANY))
REG.schema('Payload', module='payload', fields=dict(packets=List(Ref('Packet'))))
