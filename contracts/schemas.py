"""Class schemas: field -> static type. Checked against the real classes on every run
(every `self.x = ...` in the real source must name a declared field)."""
from pyvc.contract import REG
from pyvc.values import *  # noqa

REG.schema('Packet', module='packet', fields=dict(
    packet_type=INT, data=ANY, binary=BOOL, encode_cache=ANY))
REG.schema('Payload', module='payload', fields=dict(packets=List(Ref('Packet'))))

RecF = lambda **kw: Ty('recf', *sorted(kw.items()))     # noqa: E731  record-valued field

REG.schema('Queue', fields=dict(items=List(Ref('Packet', True)), unf=INT,
                                accepted=List(Ref('Packet')), taken=List(Ref('Packet')),
                                put_none=INT, taken_none=INT))
REG.schema('BaseSocket', module='base_socket', fields=dict(
    server=Ref('BaseServer'), sid=STR, queue=Ref('Queue'), last_ping=ANY, connected=BOOL,
    upgrading=BOOL, upgraded=BOOL, closing=BOOL, closed=BOOL, session=ANY))
REG.schema('Socket', module='socket', base='BaseSocket', fields=dict(server=Ref('Server')))
REG.schema('AsyncSocket', module='async_socket', base='BaseSocket',
           fields=dict(server=Ref('AsyncServer')))
REG.schema('BaseServer', module='base_server', fields=dict(
    ping_timeout=REAL, ping_interval=REAL, ping_interval_grace_period=REAL,
    max_http_buffer_size=INT, allow_upgrades=BOOL, http_compression=BOOL,
    compression_threshold=INT, cookie=ANY, cors_allowed_origins=ANY, cors_credentials=BOOL,
    async_handlers=BOOL, sockets=Dict(STR, Ref('BaseSocket')),
    handlers=Dict(STR, Opaque('Handler')), log_message_keys=Opaque('Set'),
    start_service_task=BOOL, service_task_handle=ANY, service_task_event=Opaque('Event', True),
    logger=Opaque('Logger'), async_mode=STR, transports=List(STR), sequence_number=INT,
    _async=RecF(websocket=Opaque('WSClass', True), queue=Opaque('QueueClass'), queue_empty=Opaque('ExcClass'),
                thread=Opaque('ThreadClass'), event=Opaque('EventClass'),
                sleep=Opaque('SleepFn'), translate_request=Opaque('Fn'),
                make_response=Opaque('MakeResponse'))))
REG.schema('Server', module='server', base='BaseServer',
           fields=dict(sockets=Dict(STR, Ref('Socket'))))
REG.schema('AsyncServer', module='async_server', base='BaseServer',
           fields=dict(sockets=Dict(STR, Ref('AsyncSocket'))))

# ghost state (DESIGN 3.1)
REG.ghost('csprng', List(BYTES))       # byte strings obtained from secrets.token_bytes, in order

# the WSGI environ: a dict whose HTTP_* / CGI keys hold strings (PEP 3333); other keys unknown
ENV = Ty('dict', STR, ANY, (('HTTP_*', STR), ('wsgi.url_scheme', STR), ('REQUEST_METHOD', STR),
                            ('QUERY_STRING', STR), ('CONTENT_LENGTH', STR), ('PATH_INFO', STR),
                            ('wsgi.input', Opaque('Input'))))
HEADERS = List(SS_T)
RESP = Ty('rec', ('headers', HEADERS), ('response', BYTES), ('status', STR))
REG.ghost('sr_log', List(STR))        # status lines passed to start_response (this request)
REG.ghost('sr_headers', HEADERS)      # header list of the last start_response call

from pyvc.lib_rt import EV_T, SP_T  # noqa: E402
REG.ghost('events', List(EV_T))       # application-handler invocations, in order
REG.ghost('spawned', List(SP_T))      # background tasks started, in order
REG.ghost('slept', REAL)              # total time-out the monitor asked Event.wait for
REG.ghost('now', REAL)                # ghost clock (time.time())
REG.ghost('reads', List(INT))         # sizes passed to wsgi.input.read
REG.ghost('bodies', List(BYTES))      # the byte strings wsgi.input.read returned
REG.ghost('received', List(Ref('Packet')))   # packets handed to Socket.receive, in order
from pyvc.lib_rt import FR_T  # noqa: E402
REG.ghost('ws_log', List(FR_T))       # frames read from / written to the WebSocket, interleaved
REG.ghost('hresults', List(ANY))       # values returned by application handlers, in order
REG.ghost('route', List(STR))          # where the middleware sent the request: engine / app
REG.ghost('opened', List(STR))         # files opened for serving

# ASGI middleware (C20)
REG.ghost('asgi_log', List(STR))      # types of the messages passed to the ASGI send callable
REG.ghost('asgi_status', List(INT))   # status of every http.response.start message sent
REG.ghost('asgi_ctype', List(BYTES))  # (name, value) of the single header of every start message, flattened
REG.ghost('callbacks', INT)           # number of lifespan callbacks invoked
REG.ghost('cb_raised', INT)           # number of lifespan callbacks that raised
REG.ghost('http_bodies', List(ANY))   # bodies of the HTTP requests a client handed to its HTTP library
