"""Contracts for socket.Socket / async_socket.AsyncSocket (C03-C07, C14, C16, C18).
One contract text per logical function, bound to both implementations where the signatures
agree (await erased by the front end)."""
from pyvc.contract import REG
from pyvc.values import *  # noqa
from .schemas import ENV

QI = List(Ref('Packet', True))

SOCK_WF = ('self.server.ping_timeout >= 0 and self.server.ping_interval >= 0 and '
           '(self.last_ping is None or isinstance(self.last_ping, float)) and '
           'self.queue.unf >= len(self.queue.items)')     # I9: put - task_done >= queued


def both(name):
    return ['socket.Socket.' + name, 'async_socket.AsyncSocket.' + name]


# the two helper accessors are one-liners returning driver objects: inlined at call sites
for q in ('base_server.BaseServer.create_queue', 'base_server.BaseServer.get_queue_empty_exception',
          'async_server.AsyncServer.create_queue',
          'async_server.AsyncServer.get_queue_empty_exception',
          'server.Server.sleep'):
    REG.contract(q).inline = True

c = REG.contract('server.Server.start_background_task',
                 'async_server.AsyncServer.start_background_task')
c.trusted = True
c.libimpl = 'rt.spawn'
c.trusted_reason = 'thin wrapper around the async driver thread/task class (library contract: spawn)'

# ---------------------------------------------------------------------------------------- poll
for cls, qn in (('Socket', 'socket.Socket.poll'), ('AsyncSocket', 'async_socket.AsyncSocket.poll')):
    c = REG.contract(qn, props=['C03', 'C07', 'C18'])
    c.param('self', Ref(cls))
    c.returns(QI)
    c.requires(SOCK_WF, 'socket-wf')
    c.may_raise('QueueEmpty', 'True', label='timeout',
                ensures=[('nothing-taken', 'self.queue.taken == old(self.queue.taken)'),
                         ('queue-wf', 'self.queue.unf >= len(self.queue.items)'),
                         ('waited-full-timeout',
                          'now <= old(now) + self.server.ping_interval + self.server.ping_timeout')])
    c.ensures('no-None-in-result', 'forall(lambda k: result[k] is not None, 0, len(result))')
    c.rely('queued-packets-are-well-formed',
           'forall(lambda k: packet_ok(result[k]), 0, len(result))',
           'every packet is put on a queue through Socket.send (precondition packet-wf, proved '
           'at every call site) or built by Packet.__init__ on the spot; nothing modifies a '
           'queued packet except Packet.encode, which preserves packet_ok')
    c.ensures('taken-is-result', 'self.queue.taken == old(self.queue.taken) + result')
    c.ensures('fifo-head', 'implies(len(old(self.queue.items)) > 0 and '
              'old(self.queue.items)[0] is not None, len(result) > 0 and '
              'result[0] == old(self.queue.items)[0])')
    c.ensures('accepted-grows', 'self.queue.accepted[0:len(old(self.queue.accepted))] == '
              'old(self.queue.accepted)')
    c.ensures('queue-wf', 'self.queue.unf >= len(self.queue.items)')
    # C03: the response returns everything queued at that moment - unless the closure sentinel was
    # met (and put back), the queue is empty when poll returns
    c.ensures('drains-everything-queued', 'implies(len(result) > 0 and '
              'self.queue.put_none == old(self.queue.put_none), len(self.queue.items) == 0)',
              props=['C03'])
    # the None sentinel (closure marker): consumed only when it is the first item; a sentinel met
    # while draining is put back
    c.ensures('sentinel-consumed-only-first', 'implies(len(result) == 0, '
              'self.queue.taken_none == old(self.queue.taken_none) + 1 and '
              'self.queue.put_none == old(self.queue.put_none))')
    c.ensures('sentinel-put-back', 'implies(len(result) > 0, '
              'self.queue.taken_none - old(self.queue.taken_none) == '
              'self.queue.put_none - old(self.queue.put_none))')
    c.modifies('self.queue.items', 'self.queue.unf', 'self.queue.taken', 'self.queue.accepted',
               'self.queue.put_none', 'self.queue.taken_none', 'ghost.now')
    c.loop(0, invariants=[
        ('no-None', 'forall(lambda k: packets[k] is not None, 0, len(packets))'),
        ('nonempty', 'len(packets) >= 1'),
        ('fifo-head', 'implies(len(old(self.queue.items)) > 0, '
         'packets[0] == old(self.queue.items)[0])'),
        ('sentinel-balance', 'self.queue.taken_none - old(self.queue.taken_none) == '
         'self.queue.put_none - old(self.queue.put_none)'),
        ('no-sentinel-put-back-yet', 'self.queue.put_none == old(self.queue.put_none)'),
        ('queue-wf', 'self.queue.unf >= len(self.queue.items)'),
        ('taken', 'self.queue.taken == old(self.queue.taken) + packets'),
        ('accepted-grows', 'self.queue.accepted[0:len(old(self.queue.accepted))] == '
         'old(self.queue.accepted)')],
        modifies=['packets', 'pkt', 'self.queue.items', 'self.queue.unf', 'self.queue.taken',
                  'self.queue.accepted', 'self.queue.put_none', 'self.queue.taken_none'])

FLAGS_SAME = ('self.closing == old(self.closing) and self.closed == old(self.closed) and '
              'self.connected == old(self.connected) and self.upgrading == old(self.upgrading) '
              'and self.upgraded == old(self.upgraded)')
QUIET = ('events == old(events) and hresults == old(hresults) and spawned == old(spawned) and '
         'self.queue.accepted == old(self.queue.accepted) and ' + FLAGS_SAME)
# object-granular frame: this socket and ITS queue only ("never another session", C03/C16)
SOCK_MOD = ['self.closing', 'self.closed', 'self.queue.items', 'self.queue.unf',
            'self.queue.taken', 'self.queue.accepted', 'self.queue.put_none',
            'self.queue.taken_none', 'ghost.events', 'ghost.hresults', 'ghost.now', 'ghost.spawned']

# ------------------------------------------------------------------------- check_ping_timeout
for cls, mod in (('Socket', 'socket'), ('AsyncSocket', 'async_socket')):
    c = REG.contract('%s.%s.check_ping_timeout' % (mod, cls), props=['C05', 'C07', 'C18'])
    c.param('self', Ref(cls))
    c.returns(BOOL)
    c.requires(SOCK_WF, 'socket-wf')
    c.raises('SocketIsClosedError', 'self.closed', ensures=[('unchanged', QUIET + ' and '
             'self.queue.items == old(self.queue.items) and self.queue.unf == '
             'old(self.queue.unf) and self.queue.taken == old(self.queue.taken)')])
    c.ensures('timeout-iff-deadline-passed', 'result == (not old(ping_expired(self, now)))',
              props=['C07'])
    c.ensures('alive-unchanged', 'implies(result, ' + FLAGS_SAME + ' and events == old(events) and hresults == old(hresults) '
              'and self.queue.items == old(self.queue.items) and '
              'self.queue.accepted == old(self.queue.accepted) and now == old(now))')
    c.ensures('dead-closing', 'implies(not result, self.closing)')
    c.ensures('dead-closed-with-reason', "implies(not result and not old(self.closing), "
              "self.closed and implies('disconnect' in self.server.handlers, "
              "one_disconnect(events, old(events), self.server.handlers['disconnect'], self.sid, "
              "'ping timeout')))", props=['C05', 'C07'])
    c.ensures('already-closing-silent', 'implies(old(self.closing), ' + FLAGS_SAME +
              ' and events == old(events) and hresults == old(hresults))')
    c.ensures('events-only-grow', 'grows(events, old(events))')
    c.ensures('spawned-only-grow', 'grows(spawned, old(spawned))')
    c.ensures('spawns-nothing', 'spawned == old(spawned)')
    c.ensures('dead-no-message-enqueued',
              'appended_at_most_close(self.queue.accepted, old(self.queue.accepted), None)')
    c.ensures('queue-wf', 'self.queue.unf >= len(self.queue.items)')
    c.ensures('taken-unchanged', 'self.queue.taken == old(self.queue.taken)')
    c.modifies(*SOCK_MOD)
    if c.qualnames[0].endswith('.receive'):
        # ghost: every packet handed to receive() is logged, whatever its outcome
        c.ghost_entry('received', 'received + [pkt]')
        c.ensures('logged-received', 'received == old(received) + [pkt]')
        for rc in c.raises_:
            Cl = __import__('pyvc.contract', fromlist=['Clause']).Clause
            rc.ensures.append(Cl('logged-received', 'received == old(received) + [pkt]', c.props))
            rc.ensures.append(Cl('queue-untouched', 'self.queue.unf >= len(self.queue.items) and '
                                 'self.queue.taken == old(self.queue.taken)', c.props))
        c.modifies('ghost.received')

# ----------------------------------------------------------------------------------------- send
    c = REG.contract('%s.%s.send' % (mod, cls), props=['C03', 'C07', 'C16', 'C18'])
    c.param('self', Ref(cls)).param('pkt', Ref('Packet'))
    c.requires(SOCK_WF, 'socket-wf')
    c.requires('0 <= pkt.packet_type and pkt.packet_type <= 6', 'packet-type')
    c.requires('packet_ok(pkt)', 'packet-wf')      # guarantee side of the queue rely (see poll)
    c.raises('SocketIsClosedError', 'self.closed', ensures=[('unchanged', QUIET + ' and '
             'self.queue.items == old(self.queue.items) and self.queue.unf == '
             'old(self.queue.unf) and self.queue.taken == old(self.queue.taken)')])
    c.ensures('enqueued-once', 'implies(not old(ping_expired(self, now)), '
              'self.queue.accepted == old(self.queue.accepted) + [pkt] and '
              'self.queue.items == old(self.queue.items) + [pkt] and ' + FLAGS_SAME +
              ' and events == old(events) and hresults == old(hresults) and now == old(now))',
              props=['C03'])
    c.ensures('already-closing-silent', 'implies(old(self.closing), ' + FLAGS_SAME +
              ' and events == old(events) and hresults == old(hresults))')
    c.ensures('events-only-grow', 'grows(events, old(events))')
    c.ensures('spawned-only-grow', 'grows(spawned, old(spawned))')
    c.ensures('spawns-nothing', 'spawned == old(spawned)')
    c.ensures('dead-peer-closed-first', 'implies(old(ping_expired(self, now)), self.closing and '
              'appended_at_most_close(self.queue.accepted, old(self.queue.accepted), pkt))',
              props=['C03', 'C07'])
    c.ensures('queue-wf', 'self.queue.unf >= len(self.queue.items)')
    c.ensures('taken-unchanged', 'self.queue.taken == old(self.queue.taken)')
    c.modifies(*SOCK_MOD)
    if c.qualnames[0].endswith('.receive'):
        # ghost: every packet handed to receive() is logged, whatever its outcome
        c.ghost_entry('received', 'received + [pkt]')
        c.ensures('logged-received', 'received == old(received) + [pkt]')
        for rc in c.raises_:
            Cl = __import__('pyvc.contract', fromlist=['Clause']).Clause
            rc.ensures.append(Cl('logged-received', 'received == old(received) + [pkt]', c.props))
            rc.ensures.append(Cl('queue-untouched', 'self.queue.unf >= len(self.queue.items) and '
                                 'self.queue.taken == old(self.queue.taken)', c.props))
        c.modifies('ghost.received')

# ---------------------------------------------------------------------------------------- close
    c = REG.contract('%s.%s.close' % (mod, cls), props=['C05', 'C15', 'C16', 'C18'])
    c.param('self', Ref(cls)).param('wait', BOOL).param('abort', BOOL)
    c.param('reason', [NONE, STR])
    c.requires(SOCK_WF, 'socket-wf')
    c.ensures('idempotent', 'implies(old(self.closed) or old(self.closing), ' + FLAGS_SAME +
              ' and events == old(events) and hresults == old(hresults) and self.queue.items == old(self.queue.items) and '
              'self.queue.accepted == old(self.queue.accepted))', props=['C05'])
    c.ensures('closes', 'implies(not (old(self.closed) or old(self.closing)), '
              'self.closing and self.closed)', props=['C05'])
    c.ensures('one-disconnect-with-reason',
              "implies(not (old(self.closed) or old(self.closing)) and "
              "'disconnect' in self.server.handlers, "
              "one_disconnect(events, old(events), self.server.handlers['disconnect'], self.sid, "
              "reason or 'server disconnect'))", props=['C05'])
    c.ensures('no-handler-no-event', "implies('disconnect' not in self.server.handlers, "
              "events == old(events) and hresults == old(hresults))", props=['C05'])
    c.ensures('events-only-grow', 'grows(events, old(events))')
    c.ensures('spawned-only-grow', 'grows(spawned, old(spawned))')
    c.ensures('spawns-nothing', 'spawned == old(spawned)')
    c.ensures('only-close-packet-enqueued',
              'appended_at_most_close(self.queue.accepted, old(self.queue.accepted), None)')
    c.ensures('abort-enqueues-nothing', 'implies(abort, self.queue.accepted == '
              'old(self.queue.accepted))')
    c.ensures('queue-wf', 'self.queue.unf >= len(self.queue.items)')
    c.ensures('taken-unchanged', 'implies(not wait, self.queue.taken == old(self.queue.taken))')
    c.ensures('other-flags', 'self.connected == old(self.connected) and '
              'self.upgrading == old(self.upgrading) and self.upgraded == old(self.upgraded)')
    c.modifies(*SOCK_MOD)

# -------------------------------------------------------------------- schedule_ping / _send_ping
    c = REG.contract('%s.%s.schedule_ping' % (mod, cls), props=['C07', 'C18'])
    c.param('self', Ref(cls))
    c.ensures('spawns-ping-task', "spawned == old(spawned) + [mk_task('_send_ping', self)]")
    c.modifies('ghost.spawned')

    c = REG.contract('%s.%s._send_ping' % (mod, cls), props=['C07', 'C18'])
    c.param('self', Ref(cls))
    c.requires(SOCK_WF, 'socket-wf')
    c.ensures('sleeps-one-interval', 'now == old(now) + self.server.ping_interval')
    c.ensures('ping-sent-if-open', 'implies(not old(self.closing) and not old(self.closed), '
              'self.last_ping == now and len(self.queue.accepted) == '
              'len(old(self.queue.accepted)) + 1 and '
              'self.queue.accepted[len(old(self.queue.accepted))].packet_type == 2 and '
              'self.queue.accepted[0:len(old(self.queue.accepted))] == old(self.queue.accepted))')
    c.ensures('silent-if-closing', 'implies(old(self.closing) or old(self.closed), '
              'self.last_ping is None and self.queue.accepted == old(self.queue.accepted) and '
              'events == old(events) and hresults == old(hresults))')
    # Guarantee side of the heartbeat's interference argument (DESIGN 9.2, concurrency): the peer's
    # PONG can be processed - and re-arm the heartbeat through schedule_ping - as soon as the PING is
    # in the queue, so the deadline must already be armed when the PING is handed to send(); a stamp
    # written after that point could overwrite the state left by the answer (seed C07-7).
    # Threaded socket only: under asyncio nothing can run between the unbounded queue's put and the
    # next statement, so the order is immaterial there and no obligation is generated.
    if cls == 'Socket':
        c.check_before('self.send(packet.Packet(packet.PING))',
                       'deadline-armed-before-the-ping-is-visible', 'self.last_ping == now',
                       props=['C07'])
    c.modifies('self.last_ping', *SOCK_MOD)

# ------------------------------------------------------------------------------ _trigger_event
HANDLERS_ARGS = [Ty('tup', STR, ANY), Ty('tup', STR, STR), Ty('tup', STR, ENV)]
for cls, mod in (('Server', 'server'), ('AsyncServer', 'async_server')):
    c = REG.contract('%s.%s._trigger_event' % (mod, cls), props=['C04', 'C05', 'C18'])
    c.param('self', Ref(cls)).param('event', STR).param('args', HANDLERS_ARGS)
    c.param('kwargs', Ty('rec', ('run_async', BOOL)))
    c.returns(ANY)
    c.ensures('unregistered-is-noop', 'implies(event not in self.handlers, result is None and '
              'events == old(events) and hresults == old(hresults) and spawned == old(spawned))')
    c.ensures('background-spawns-one-task', "implies(event in self.handlers and "
              "kwargs['run_async'], events == old(events) and hresults == old(hresults) and "
              "one_task_spawned(spawned, old(spawned)) and "
              "is_handler_task(task_name(spawned[len(old(spawned))])))", props=['C04'])
    c.ensures('sync-invokes-once', "implies(event in self.handlers and not kwargs['run_async'] "
              "and handler_accepts(self.handlers[event], 2), spawned == old(spawned) and "
              "last_event_is(events, old(events), self.handlers[event], 2, args[0], args[1]))",
              props=['C04', 'C05'])
    c.ensures('sync-legacy-disconnect', "implies(event in self.handlers and not "
              "kwargs['run_async'] and not handler_accepts(self.handlers[event], 2) and "
              "event == 'disconnect' and handler_accepts(self.handlers[event], 1), "
              "last_event_is(events, old(events), self.handlers[event], 1, args[0], None))",
              props=['C05'])
    c.ensures('returns-what-the-handler-returned', "implies(event in self.handlers and not "
              "kwargs['run_async'] and len(hresults) == len(old(hresults)) + 1, "
              "result == hresults[len(old(hresults))] and "
              "hresults[0:len(old(hresults))] == old(hresults))", props=['C11', 'C05'])
    c.ensures('raising-connect-handler-rejects', "implies(event == 'connect' and "
              "event in self.handlers and not kwargs['run_async'] and "
              "len(hresults) == len(old(hresults)), result is False)", props=['C11'])
    c.ensures('at-most-two-results', 'len(hresults) <= len(old(hresults)) + 2 and '
              'len(hresults) >= len(old(hresults)) and '
              "implies(event != 'disconnect', len(hresults) <= len(old(hresults)) + 1)")
    c.ensures('sync-spawns-nothing', "implies(not kwargs['run_async'], spawned == old(spawned))")
    c.ensures('sync-bad-signature-no-event', "implies(event in self.handlers and not "
              "kwargs['run_async'] and not handler_accepts(self.handlers[event], 2) and not "
              "(event == 'disconnect' and handler_accepts(self.handlers[event], 1)), "
              "events == old(events) and hresults == old(hresults))")
    c.modifies('ghost.events', 'ghost.hresults', 'ghost.spawned', 'ghost.now')

# -------------------------------------------------------------------------------------- receive
QUIET = ('events == old(events) and hresults == old(hresults) and spawned == old(spawned) and '
         'self.queue.accepted == old(self.queue.accepted) and ' + FLAGS_SAME)
for cls, mod in (('Socket', 'socket'), ('AsyncSocket', 'async_socket')):
    c = REG.contract('%s.%s.receive' % (mod, cls), props=['C04', 'C05', 'C07', 'C18'])
    c.param('self', Ref(cls)).param('pkt', Ref('Packet'))
    c.requires(SOCK_WF, 'socket-wf')
    c.requires('0 <= pkt.packet_type and pkt.packet_type <= 9', 'decoded-type-digit')
    c.raises('UnknownPacketError', 'pkt.packet_type not in (1, 3, 4, 5)', label='other-types-refused',
             ensures=[('nothing-happens', QUIET)], props=['C04'])
    c.may_raise('SocketIsClosedError', 'pkt.packet_type == 5 and self.closed',
                ensures=[('nothing-happens', QUIET)])
    c.ensures('pong-rearms-heartbeat', "implies(pkt.packet_type == 3, "
              "spawned == old(spawned) + [mk_task('_send_ping', self)] and events == old(events) and hresults == old(hresults) "
              "and self.queue.accepted == old(self.queue.accepted) and " + FLAGS_SAME + ")",
              props=['C04', 'C07'])
    c.ensures('message-one-event-sync', "implies(pkt.packet_type == 4 and "
              "'message' in self.server.handlers and not self.server.async_handlers and "
              "handler_accepts(self.server.handlers['message'], 2), "
              "last_event_is(events, old(events), self.server.handlers['message'], 2, self.sid, "
              "pkt.data) and spawned == old(spawned))", props=['C04'])
    c.ensures('message-one-task-async', "implies(pkt.packet_type == 4 and "
              "'message' in self.server.handlers and self.server.async_handlers, "
              "events == old(events) and hresults == old(hresults) and one_task_spawned(spawned, old(spawned)) and "
              "is_handler_task(task_name(spawned[len(old(spawned))])))", props=['C04'])
    c.ensures('message-leaves-session-alone', "implies(pkt.packet_type == 4, " + FLAGS_SAME +
              " and self.queue.accepted == old(self.queue.accepted))", props=['C04', 'C05'])
    c.ensures('events-only-grow', 'grows(events, old(events))')
    c.ensures('spawned-only-grow', 'grows(spawned, old(spawned))')
    c.ensures('message-payload-unchanged', 'pkt.data == old(pkt.data)', props=['C04'])
    c.ensures('upgrade-answered-with-noop', "implies(pkt.packet_type == 5 and "
              "not old(ping_expired(self, now)), len(self.queue.accepted) == "
              "len(old(self.queue.accepted)) + 1 and "
              "self.queue.accepted[len(old(self.queue.accepted))].packet_type == 6 and "
              "self.queue.accepted[0:len(old(self.queue.accepted))] == old(self.queue.accepted) "
              "and events == old(events) and hresults == old(hresults))", props=['C04'])
    c.ensures('close-ends-session', "implies(pkt.packet_type == 1 and "
              "not (old(self.closed) or old(self.closing)), self.closing and self.closed and "
              "self.queue.accepted == old(self.queue.accepted) and "
              "implies('disconnect' in self.server.handlers, one_disconnect(events, old(events), "
              "self.server.handlers['disconnect'], self.sid, 'client disconnect')))",
              props=['C04', 'C05'])
    c.ensures('close-after-close-is-noop', "implies(pkt.packet_type == 1 and "
              "(old(self.closed) or old(self.closing)), " + QUIET + ")", props=['C05'])
    c.ensures('queue-wf', 'self.queue.unf >= len(self.queue.items)')
    c.ensures('closed-implies-closing-kept', 'implies(implies(old(self.closed), old(self.closing)), implies(self.closed, self.closing))', props=['C05'])
    c.ensures('taken-unchanged', 'self.queue.taken == old(self.queue.taken)')
    c.modifies(*SOCK_MOD)
    if c.qualnames[0].endswith('.receive'):
        # ghost: every packet handed to receive() is logged, whatever its outcome
        c.ghost_entry('received', 'received + [pkt]')
        c.ensures('logged-received', 'received == old(received) + [pkt]')
        for rc in c.raises_:
            Cl = __import__('pyvc.contract', fromlist=['Clause']).Clause
            rc.ensures.append(Cl('logged-received', 'received == old(received) + [pkt]', c.props))
            rc.ensures.append(Cl('queue-untouched', 'self.queue.unf >= len(self.queue.items) and '
                                 'self.queue.taken == old(self.queue.taken)', c.props))
        c.modifies('ghost.received')

# ------------------------------------------------------------------------- handle_post_request
POST_MOD = SOCK_MOD + ['ghost.reads', 'ghost.bodies', 'ghost.received']
ENV_POST = ("'wsgi.input' in environ and ('CONTENT_LENGTH' not in environ or "
            "(int_ok(environ['CONTENT_LENGTH']) and int(environ['CONTENT_LENGTH']) >= 0))")
NOTHING_DISPATCHED = ('received == old(received) and events == old(events) and hresults == old(hresults) and '
                      'spawned == old(spawned) and ' + FLAGS_SAME +
                      ' and self.queue.accepted == old(self.queue.accepted)')
for cls, mod in (('Socket', 'socket'), ('AsyncSocket', 'async_socket')):
    c = REG.contract('%s.%s.handle_post_request' % (mod, cls), props=['C04', 'C14', 'C18'])
    c.param('self', Ref(cls)).param('environ', ENV)
    c.requires(SOCK_WF, 'socket-wf')
    c.requires(ENV_POST, 'gateway-environ')
    c.requires('self.server.max_http_buffer_size >= 0', 'limit-nonneg')
    c.raises('ContentTooLongError',
             "int(environ.get('CONTENT_LENGTH', '0')) > self.server.max_http_buffer_size",
             label='oversize-refused-unread',
             ensures=[('nothing-read', 'reads == old(reads)'),
                      ('queue-wf', 'self.queue.unf >= len(self.queue.items)'),
                      ('nothing-dispatched', NOTHING_DISPATCHED)], props=['C14', 'C04'])
    for exc in ('ValueError', 'KeyError', 'RecursionError'):
        c.may_raise(exc, 'True', label='undecodable-' + exc,
                    ensures=[('nothing-dispatched', NOTHING_DISPATCHED),
                             ('queue-wf', 'self.queue.unf >= len(self.queue.items)')],
                    props=['C04', 'C14'])
    c.may_raise('UnknownPacketError', 'True',
                ensures=[('events-only-grow', 'grows(events, old(events))'),
                         ('queue-wf', 'self.queue.unf >= len(self.queue.items)')])
    c.may_raise('SocketIsClosedError', 'True',
                ensures=[('events-only-grow', 'grows(events, old(events))'),
                         ('queue-wf', 'self.queue.unf >= len(self.queue.items)')])
    c.ensures('reads-declared-length-within-limit',
              "reads == old(reads) + [int(environ.get('CONTENT_LENGTH', '0'))] and "
              "int(environ.get('CONTENT_LENGTH', '0')) <= self.server.max_http_buffer_size",
              props=['C14'])
    # C04: a body that is not valid UTF-8 is refused as a whole (no packet of it is dispatched)
    c.ensures('undecodable-body-dispatches-nothing', 'implies(len(bodies) > len(old(bodies)) and '
              'not utf8_ok(bodies[len(old(bodies))]), received == old(received) and '
              'events == old(events) and spawned == old(spawned))', props=['C04'])
    c.ensures('at-most-16-packets', 'len(received) <= len(old(received)) + 16',
              props=['C14', 'C02', 'C10'])
    c.ensures('events-only-grow', 'grows(events, old(events))')
    c.ensures('spawned-only-grow', 'grows(spawned, old(spawned))')
    c.ensures('received-in-order', 'received[0:len(old(received))] == old(received)',
              props=['C04', 'C10'])
    c.ensures('queue-wf', 'self.queue.unf >= len(self.queue.items)')
    c.modifies(*POST_MOD)
    c.loop(0, index='i', invariants=[
        ('each-once-in-order', 'received == old(received) + p.packets[0:i]'),
        ('events-only-grow', 'grows(events, old(events))'),
    ('spawned-only-grow', 'grows(spawned, old(spawned))'),
        ('queue-wf', 'self.queue.unf >= len(self.queue.items)')],
        modifies=SOCK_MOD + ['ghost.received'], props=['C04', 'C18'], complete=True)
    # (complete: every packet of the body is handed to receive - the loop has no early exit; a
    # protocol error leaves through the exception receive raises)

# ------------------------------------------------------------------------- _websocket_handler
WS_MOD = SOCK_MOD + ['self.upgrading', 'self.upgraded', 'self.connected', 'ghost.ws_log',
                     'ghost.received', 'Packet.encode_cache']
HS_PRE = 'not self.upgrading and implies(self.connected, not self.upgraded)'
for _cls, _mod in (('Socket', 'socket'), ('AsyncSocket', 'async_socket')):
    c = REG.contract('%s.%s._websocket_handler' % (_mod, _cls), props=['C03', 'C04', 'C05', 'C06', 'C14'])
    c.param('self', Ref(_cls)).param('ws', Opaque('WS'))
    if _cls == 'Socket':
        c.returns(QI)
    c.shards = 6
    c.requires(SOCK_WF, 'socket-wf')
    c.requires(HS_PRE, 'one-upgrade-at-a-time')
    c.requires('not self.closed', 'session-open')
    c.requires('self.server.max_http_buffer_size >= 0', 'limit-nonneg')
    if _cls == 'Socket':
        c.abstract("for attr in ['_sock', 'socket']:",
                   'socket time-out tuning on driver-internal attributes; touches no modelled state')
    # C14: a frame handed to the packet decoder (and from there to receive / the handlers) is never
    # longer than the limit (a frame of exactly the limit passes)
    c.check_before('pkt = packet.Packet(encoded_packet=p)', 'frame-within-limit',
                   'len(p) <= self.server.max_http_buffer_size', props=['C14'])
    # C05: after the disconnect event no frame is read any more (so none can produce an event)
    c.check_before('try: p = websocket_wait()' if _cls == 'Socket' else
                   'wait_task = asyncio.ensure_future(websocket_wait())',
                   'reads-only-while-open', 'not self.closed', props=['C05'])
    c.may_raise('Exception', 'True', label='driver-or-frame-error', ensures=[
        ('events-only-grow', 'grows(events, old(events))'),
        ('spawned-only-grow', 'grows(spawned, old(spawned))'),
        ('queue-wf', 'self.queue.unf >= len(self.queue.items)'),
        ('failed-upgrade-consumes-nothing',
         'implies(not self.upgraded, self.queue.taken == old(self.queue.taken))')], props=['C06'])
    if _cls == 'Socket':
        # (the asyncio handler returns on a driver error during the probe without resetting the
        # flag; its only caller _upgrade_websocket resets it in a finally clause)
        c.ensures('flag-reset', 'not self.upgrading', props=['C06'])
    c.ensures('events-only-grow', 'grows(events, old(events))')
    c.ensures('spawned-only-grow', 'grows(spawned, old(spawned))')
    c.ensures('queue-wf', 'self.queue.unf >= len(self.queue.items)')
    c.ensures('upgrade-only-via-probe', 'implies(old(self.connected) and self.upgraded, '
              'handshake_frames(ws_log, len(old(ws_log))))', props=['C06'])
    c.ensures('failed-upgrade-harmless', 'implies(old(self.connected) and not self.upgraded, '
              'self.queue.taken == old(self.queue.taken) and '
              'self.queue.items[0:len(old(self.queue.items))] == old(self.queue.items) and '
              'self.closing == old(self.closing) and self.closed == old(self.closed) and '
              'events == old(events) and hresults == old(hresults))', props=['C06', 'C03'])
    c.ensures('direct-websocket-mode', 'implies(not old(self.connected), self.connected and '
              'self.upgraded)', props=['C06'])
    c.ensures('ends-closed', 'implies(self.upgraded, self.closing)', props=['C05'])
    if _cls == 'Socket':
        c.ensures('result-empty', 'result == []')
    c.modifies(*WS_MOD)
    c.loop(1 if _cls == 'Socket' else 0, invariants=[
        ('steady-state', 'self.upgraded and not self.upgrading and self.connected'),
        ('closed-implies-closing', 'implies(self.closed, self.closing)'),
        ('events-only-grow', 'grows(events, old(events))'),
        ('spawned-only-grow', 'grows(spawned, old(spawned))'),
        ('queue-wf', 'self.queue.unf >= len(self.queue.items)'),
        ('handshake-record', 'implies(old(self.connected), '
         'handshake_frames(ws_log, len(old(ws_log))))'),
        ('taken-unchanged', 'self.queue.taken == old(self.queue.taken)')],
        modifies=['p', 'pkt', 'new Packet.binary', 'new Packet.packet_type', 'new Packet.data'] +
        WS_MOD, summarize=True)

# -------------------------------------------------------------------------- _upgrade_websocket
from .schemas import RESP  # noqa: E402
SR = Opaque('StartResponse')
for _cls, _mod in (('Socket', 'socket'), ('AsyncSocket', 'async_socket')):
    c = REG.contract('%s.%s._upgrade_websocket' % (_mod, _cls), props=['C06', 'C03', 'C05'])
    c.param('self', Ref(_cls)).param('environ', ENV)
    if _cls == 'Socket':
        c.param('start_response', SR)
    c.returns_cases(('unavailable', "self.server._async['websocket'] is None", RESP),
                    ('handled', "self.server._async['websocket'] is not None",
                     QI if _cls == 'Socket' else NONE))
    c.requires(SOCK_WF, 'socket-wf')
    c.requires('not self.upgrading and not self.closed', 'one-upgrade-at-a-time')
    c.requires('self.server.max_http_buffer_size >= 0', 'limit-nonneg')
    c.raises('OSError', 'self.upgraded', label='already-upgraded-refused',
             ensures=[('established-websocket-undisturbed', QUIET + ' and ws_log == old(ws_log) and '
                       'received == old(received) and '
                       'self.queue.taken == old(self.queue.taken) and '
                       'self.queue.items == old(self.queue.items)')], props=['C06'])
    c.may_raise('Exception', 'not self.upgraded', label='driver-or-frame-error', ensures=[
        ('flag-reset', 'not self.upgrading'),
        ('events-only-grow', 'grows(events, old(events))'),
        ('spawned-only-grow', 'grows(spawned, old(spawned))'),
        ('queue-wf', 'self.queue.unf >= len(self.queue.items)'),
        ('failed-upgrade-consumes-nothing',
         'implies(not self.upgraded, self.queue.taken == old(self.queue.taken))')], props=['C06'])
    c.ensures('flag-reset', 'not self.upgrading', props=['C06'])
    c.ensures('events-only-grow', 'grows(events, old(events))')
    c.ensures('spawned-only-grow', 'grows(spawned, old(spawned))')
    c.ensures('queue-wf', 'self.queue.unf >= len(self.queue.items)')
    if _cls == 'Socket':
        c.ensures('handled-returns-empty-list', "implies(self.server._async['websocket'] is not "
                  "None, result == [])")
    c.ensures('unavailable-is-400', "implies(self.server._async['websocket'] is None, "
              "result['status'] == '400 BAD REQUEST' and " + QUIET + ")", props=['C06'])
    c.ensures('upgrade-only-via-probe', 'implies(old(self.connected) and self.upgraded, '
              'handshake_frames(ws_log, len(old(ws_log))))', props=['C06'])
    c.ensures('failed-upgrade-harmless', "implies(old(self.connected) and not self.upgraded and "
              "self.server._async['websocket'] is not None, "
              'self.queue.taken == old(self.queue.taken) and '
              'self.queue.items[0:len(old(self.queue.items))] == old(self.queue.items) and '
              'self.closing == old(self.closing) and self.closed == old(self.closed) and '
              'events == old(events) and hresults == old(hresults))', props=['C06', 'C03'])
    c.ensures('direct-websocket-mode', "implies(not old(self.connected) and "
              "self.server._async['websocket'] is not None, self.connected and self.upgraded)",
              props=['C06'])
    c.modifies(*WS_MOD)

    # -------------------------------------------------------------------------- handle_get_request
    c = REG.contract('%s.%s.handle_get_request' % (_mod, _cls), props=['C03', 'C05', 'C06', 'C07'])
    c.param('self', Ref(_cls)).param('environ', ENV)
    if _cls == 'Socket':
        c.param('start_response', SR)
    UPG = 'is_upgrade_request(environ, self.upgrade_protocols)'
    if _cls == 'Socket':
        c.returns_cases(('upgrade-unavailable', UPG + " and self.server._async['websocket'] is None",
                         RESP),
                        ('packets', "not (" + UPG + " and self.server._async['websocket'] is None)",
                         QI))
    else:       # the asyncio drivers' upgrade call returns None, not an empty packet list
        c.returns_cases(('upgrade-unavailable', UPG + " and self.server._async['websocket'] is None",
                         RESP),
                        ('upgrade-handled', UPG + " and self.server._async['websocket'] is not None",
                         NONE),
                        ('packets', "not " + UPG, QI))
    c.requires(SOCK_WF, 'socket-wf')
    c.requires('not self.upgrading or not ' + UPG, 'one-upgrade-at-a-time')
    c.requires('not self.closed', 'live-session')
    c.requires('self.server.max_http_buffer_size >= 0', 'limit-nonneg')
    c.raises('OSError', UPG + ' and self.upgraded', label='already-upgraded-refused',
             ensures=[('established-websocket-undisturbed', QUIET + ' and ws_log == old(ws_log) and '
                       'received == old(received) and '
                       'self.queue.taken == old(self.queue.taken)')], props=['C06'])
    c.may_raise('Exception', UPG + ' and not self.upgraded', label='driver-or-frame-error', ensures=[
        ('flag-reset', 'not self.upgrading'),
        ('events-only-grow', 'grows(events, old(events))'),
        ('spawned-only-grow', 'grows(spawned, old(spawned))'),
        ('queue-wf', 'self.queue.unf >= len(self.queue.items)'),
        ('failed-upgrade-consumes-nothing',
         'implies(not self.upgraded, self.queue.taken == old(self.queue.taken))')], props=['C06'])
    c.may_raise('QueueEmpty', 'not ' + UPG + ' and not (self.upgrading or self.upgraded)',
                label='poll-timeout-closes-session', ensures=[
        ('nothing-taken', 'self.queue.taken == old(self.queue.taken)'),
        ('queue-wf', 'self.queue.unf >= len(self.queue.items)'),
        ('events-only-grow', 'grows(events, old(events))'),
        ('spawned-only-grow', 'grows(spawned, old(spawned))'),
        ('closed-with-transport-error', "self.closing and implies(not old(self.closing) and "
         "'disconnect' in self.server.handlers, one_disconnect(events, old(events), "
         "self.server.handlers['disconnect'], self.sid, 'transport error'))")],
                props=['C07', 'C05', 'C15'])      # C15: the session closes itself WITHOUT waiting,
    # so the server's follow-up disconnect(sid) finds it closed and does not join its queue
    c.ensures('events-only-grow', 'grows(events, old(events))')
    c.ensures('spawned-only-grow', 'grows(spawned, old(spawned))')
    c.ensures('queue-wf', 'self.queue.unf >= len(self.queue.items)')
    c.ensures('result-packets-wf', 'implies(not (' + UPG + (" and self.server._async['websocket'] "
              "is None), " if _cls == 'Socket' else "), ") + "forall(lambda k: result[k] is not None and packet_ok(result[k]), 0, "
              "len(result)))")
    c.ensures('upgrade-unavailable-is-400', 'implies(' + UPG + " and self.server._async['websocket'] "
              "is None, result['status'] == '400 BAD REQUEST' and " + QUIET + ')', props=['C06'])
    c.ensures('polls-during-upgrade-get-noop', 'implies(not ' + UPG + ' and '
              '(old(self.upgrading) or old(self.upgraded)), len(result) == 1 and '
              'result[0].packet_type == 6 and self.queue.taken == old(self.queue.taken) and '
              'self.queue.items == old(self.queue.items) and ' + QUIET + ')', props=['C03'])
    c.ensures('poll-returns-what-it-took', 'implies(not ' + UPG + ' and '
              'not (old(self.upgrading) or old(self.upgraded)), '
              'self.queue.taken == old(self.queue.taken) + result and '
              'forall(lambda k: result[k] is not None, 0, len(result)) and ' + FLAGS_SAME +
              ' and events == old(events) and hresults == old(hresults))', props=['C03'])
    c.ensures('flag-reset', 'implies(' + UPG + ', not self.upgrading)', props=['C06'])
    c.ensures('upgrade-only-via-probe', 'implies(' + UPG + ' and old(self.connected) and '
              'self.upgraded, handshake_frames(ws_log, len(old(ws_log))))', props=['C06'])
    c.modifies(*WS_MOD)

# ----------------------------------------------------------------------------------- C07 lemmas
def _c07(eng):
    import z3
    T, tp, t, pt, pi, d, tc = z3.Reals('T tp t pt pi d tc')
    out = []
    # ACCURACY: a PONG that arrives within ping_timeout of its PING can never be preceded by a
    # time-out verdict: at any instant t up to the PONG the strict test `t - T > pt` is false
    out.append(('accuracy-no-false-timeout', [pt >= 0, tp <= T + pt, t <= tp, t >= T],
                z3.Not(t - T > pt)))
    # after the PONG, last_ping is None until the next PING is emitted ping_interval later
    # (postconditions of receive/PONG and _send_ping), so the test is not even evaluated.
    # BOUND: with the last PONG at tp the next PING goes out at T' = tp + pi (ideal timers) and the
    # deadline is d = T' + pt; any check at a time tc in (d, d + 2*pt] closes the socket, so a
    # monitor that checks every socket at least once in every window of 2*pt closes it no later
    # than tp + pi + 3*pt
    out.append(('bound-three-timeouts', [pt >= 0, pi >= 0, d == tp + pi + pt, tc > d,
                                         tc <= d + 2 * pt], z3.And(tc - (tp + pi) > pt,
                                                                   tc <= tp + pi + 3 * pt)))
    # the first send after the deadline closes first (send's postcondition dead-peer-closed-first):
    out.append(('send-after-deadline-sees-expiry', [pt >= 0, d == T + pt, t > d], t - T > pt))
    # poll time-out: nothing for ping_interval + ping_timeout -> QueueEmpty (poll contract)
    return out


REG.pylemma('C07-heartbeat-arithmetic', ['C07'], _c07,
            note='ACCURACY and BOUND over the ghost clock; uses the postconditions of _send_ping '
                 '(PING exactly ping_interval after it was scheduled), receive/PONG (re-arms) and '
                 'check_ping_timeout (strict test)')

# ----------------------------------------------------------------------- the writer agent (C03)
# Spawned by _websocket_handler once the session is in WebSocket mode: it hands every packet it
# takes from the queue to ws.send as wire(pkt, binary channel), in order, and stops on the sentinel,
# on a poll time-out or on a send error.
for cls, mod in (('Socket', 'socket'), ('AsyncSocket', 'async_socket')):
    c = REG.contract('%s.%s._websocket_handler.writer' % (mod, cls), props=['C03', 'C18'])
    c.env = {'self': Ref(cls), 'ws': Opaque('WS')}
    c.requires(SOCK_WF, 'socket-wf')
    c.ensures('frames-are-the-taken-packets-in-order',
              'sent_frames_match(ws_log, old(ws_log), self.queue.taken, old(self.queue.taken))',
              props=['C03'])
    c.ensures('nothing-taken-is-dropped-unless-send-failed', 'grows(self.queue.taken, '
              'old(self.queue.taken))', props=['C03'])
    c.modifies('self.queue.items', 'self.queue.unf', 'self.queue.taken', 'self.queue.accepted',
               'self.queue.put_none', 'self.queue.taken_none', 'ghost.now', 'ghost.ws_log',
               'Packet.encode_cache')
    c.loop(0, invariants=[
        ('every-taken-packet-written', 'batch_frames_match(ws_log, old(ws_log), self.queue.taken, '
         'old(self.queue.taken), 0, 0)'),
        ('taken-grows', 'grows(self.queue.taken, old(self.queue.taken))'),
        ('queue-wf', 'self.queue.unf >= len(self.queue.items)')],
        modifies=['packets', 'pkt', 'self.queue.items', 'self.queue.unf', 'self.queue.taken',
                  'self.queue.accepted', 'self.queue.put_none', 'self.queue.taken_none',
                  'ghost.now', 'ghost.ws_log', 'Packet.encode_cache'])
    c.loop(1, index='j', invariants=[
        ('frames-of-this-batch', 'batch_frames_match(ws_log, old(ws_log), self.queue.taken, '
         'old(self.queue.taken), len(packets), j)'),
        ('packets-wf', 'forall(lambda k: packets[k] is not None and packet_ok(packets[k]), 0, '
         'len(packets))')],
        modifies=['pkt', 'ghost.now', 'ghost.ws_log', 'Packet.encode_cache'])
