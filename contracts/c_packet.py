"""Contracts for packet.Packet (C01) and engineio.json."""
from pyvc.contract import REG
from pyvc.values import *  # noqa

# engineio.json.loads: a thin wrapper around the stdlib loads with parse_int=_safe_int.
c = REG.contract('json.loads', props=['C01'])
c.trusted = True
c.libimpl = 'json.loads'
c.trusted_reason = 'wrapper around the C/stdlib json parser (library contract L-JSON)'

c = REG.contract('json._safe_int', props=['C01'])
c.param('s', STR)
c.returns(INT)
c.raises('ValueError', 'len(s) > 100 or not int_ok(s)')
c.ensures('value', 'result == int(s)')

c = REG.contract('packet.Packet.encode', props=['C01', 'C02'])
c.param('self', Ref('Packet')).param('b64', BOOL)
c.returns(ANY)
c.requires('packet_ok(self)', 'packet-ok')
c.ensures('wire', 'result == wire(self.packet_type, self.data, b64)')
c.ensures('cache-inv', 'packet_ok(self)')
c.modifies('self.encode_cache')

c = REG.contract('packet.Packet.decode', props=['C01', 'C02'])
c.param('self', Ref('Packet')).param('encoded_packet', ANY)
c.requires('isinstance(encoded_packet, (str, bytes, bytearray))', 'wire-type')
c.raises('ValueError', 'dec_fails(encoded_packet)')
c.raises('RecursionError', 'dec_recursion(encoded_packet)')
c.ensures('binary', 'self.binary == dec_binary(encoded_packet)')
c.ensures('type', 'self.packet_type == dec_type(encoded_packet)')
c.ensures('data', 'self.data == dec_data(encoded_packet)')
c.ensures('binary-only-message', 'implies(self.binary, self.packet_type == 4)')
c.ensures('decoded-type-is-a-digit', '0 <= self.packet_type and self.packet_type <= 9')
c.ensures('bytes-only-in-messages', 'self.packet_type == 4 or not is_bin(self.data)')
c.modifies('self.binary', 'self.packet_type', 'self.data')

c = REG.contract('packet.Packet.__init__', props=['C01', 'C02'])
c.param('self', Ref('Packet')).param('packet_type', INT).param('data', ANY)
c.param('encoded_packet', ANY)
c.requires('encoded_packet is None or isinstance(encoded_packet, (str, bytes, bytearray))',
           'wire-type')
c.raises('ValueError', '(is_bin(data) and packet_type != 4) or '
                       '(encoded_packet is not None and dec_fails(encoded_packet))')
c.raises('RecursionError', 'encoded_packet is not None and not (is_bin(data) and '
         'packet_type != 4) and dec_recursion(encoded_packet)')
c.ensures('cache-empty', 'self.encode_cache is None')
c.ensures('plain-fields', 'implies(encoded_packet is None, self.packet_type == packet_type '
          'and self.data == data and self.binary == is_bin(data))')
c.ensures('decoded-fields', 'implies(encoded_packet is not None, '
          'packet_is(self, encoded_packet))')
c.ensures('api-packets-ok', 'implies(encoded_packet is None and api_payload(packet_type, data), '
          'packet_ok(self))')
c.ensures('binary-only-message', 'implies(self.binary, self.packet_type == 4)')
c.ensures('bytes-only-in-messages', 'self.packet_type == 4 or not is_bin(self.data)')
c.ensures('decoded-type-is-a-digit', 'implies(encoded_packet is not None, '
          '0 <= self.packet_type and self.packet_type <= 9)')
c.modifies('self.binary', 'self.packet_type', 'self.data', 'self.encode_cache')

# Round trip (RT): decoding the wire form gives back the type and the normalised payload.
REG.lemma('C01-roundtrip', ['C01', 'C10'],
          variables={'t': INT, 'd': ANY, 'b64': BOOL},
          premises=['api_payload(t, d)'],
          cases=['d is None', 'isinstance(d, str)', 'isinstance(d, bytes)',
                 'isinstance(d, bytearray)', 'isinstance(d, (dict, list))'],
          lets={'w': 'wire(t, d, b64)'},
          goal='(not dec_fails(w)) and implies(not dec_recursion(w), dec_type(w) == t and '
               'dec_data(w) == norm(d) and dec_binary(w) == is_bin(d))',
          note='from the postconditions of encode (result == wire) and decode (fields == dec_*)')
# the type digit is never 'b', so a text packet is never mistaken for base64
REG.lemma('C01-digit-not-b', ['C01'], variables={'t': INT}, premises=['0 <= t and t <= 6'],
          goal="len(str(t)) == 1 and str(t) != 'b' and int(str(t)) == t")
