"""Contracts for packet.Packet (C01) and engineio.json."""
from pyvc.contract import REG
from pyvc.values import *  # noqa

# engineio.json.loads: a thin wrapper around the stdlib loads with parse_int=_safe_int.
c = REG.contract('json.loads', props=['C01'])
c.trusted = True
c.libimpl = 'json.loads'
c.trusted_reason = 'wrapper around the C/stdlib json parser (library contract L-JSON)'

c = REG.contract('json._safe_int', props=['C01'])
c.param('s', STR)
c.returns(INT)
c.raises('ValueError', 'len(s) > 100 or not int_ok(s)')
c.ensures('value', 'result == int(s)')

c = REG.contract('packet.Packet.encode', props=['C01', 'C02'])
c.param('self', Ref('Packet')).param('b64', BOOL)
c.returns(ANY)
c.requires('api_payload(self.packet_type, self.data)', 'api-payload')
c.requires('self.binary == is_bin(self.data)', 'binary-flag')
c.requires('cache_ok(self.encode_cache, self.packet_type, self.data)', 'cache-inv')
c.ensures('wire', 'result == wire(self.packet_type, self.data, b64)')
c.ensures('cache-inv', 'cache_ok(self.encode_cache, self.packet_type, self.data)')
c.modifies('self.encode_cache')

c = REG.contract('packet.Packet.decode', props=['C01', 'C02'])
c.param('self', Ref('Packet')).param('encoded_packet', ANY)
c.requires('isinstance(encoded_packet, (str, bytes, bytearray))', 'wire-type')
c.raises('ValueError', 'dec_fails(encoded_packet)')
c.may_raise('RecursionError', 'isinstance(encoded_packet, str) and len(encoded_packet) > 0')
c.ensures('binary', 'self.binary == dec_binary(encoded_packet)')
c.ensures('type', 'self.packet_type == dec_type(encoded_packet)')
c.ensures('data', 'self.data == dec_data(encoded_packet)')
c.ensures('binary-only-message', 'implies(self.binary, self.packet_type == 4)')
c.modifies('self.binary', 'self.packet_type', 'self.data')

c = REG.contract('packet.Packet.__init__', props=['C01', 'C02'])
c.param('self', Ref('Packet')).param('packet_type', INT).param('data', ANY)
c.param('encoded_packet', ANY)
c.requires('encoded_packet is None or isinstance(encoded_packet, (str, bytes, bytearray))',
           'wire-type')
c.raises('ValueError', '(is_bin(data) and packet_type != 4) or '
                       '(encoded_packet is not None and dec_fails(encoded_packet))')
c.may_raise('RecursionError', 'isinstance(encoded_packet, str) and len(encoded_packet) > 0')
c.ensures('cache-empty', 'self.encode_cache is None')
c.ensures('plain-fields', 'implies(encoded_packet is None, self.packet_type == packet_type '
          'and self.data == data and self.binary == is_bin(data))')
c.ensures('decoded-fields', 'implies(encoded_packet is not None, '
          'self.binary == dec_binary(encoded_packet) and '
          'self.packet_type == dec_type(encoded_packet) and '
          'self.data == dec_data(encoded_packet))')
c.ensures('binary-only-message', 'implies(self.binary, self.packet_type == 4)')
c.modifies('self.binary', 'self.packet_type', 'self.data', 'self.encode_cache')
