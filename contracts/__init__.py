"""Sidecar contracts for python-engineio. Importing this package fills pyvc.contract.REG."""
from . import schemas      # noqa
from . import c_packet     # noqa
from . import c_payload    # noqa
from . import c_base_server  # noqa
from . import c_socket  # noqa
from . import c_server  # noqa
from . import c_middleware  # noqa
from . import c_client  # noqa
