"""Contracts for base_server.BaseServer."""
import z3
from pyvc.contract import REG
from pyvc.values import *  # noqa
from pyvc import lib

M24 = 2 ** 24

# ------------------------------------------------------------------------------------------ C17
c = REG.contract('base_server.BaseServer.generate_id', props=['C17'])
c.param('self', Ref('BaseServer'))
c.returns(STR)
c.requires('0 <= self.sequence_number and self.sequence_number < 16777216', 'counter-range')
c.ensures('draws-12-bytes', 'len(csprng) == len(old(csprng)) + 1 and '
          'csprng[0:len(old(csprng))] == old(csprng) and len(csprng[len(csprng) - 1]) == 12')
c.ensures('id', 'result == sid_of(csprng[len(csprng) - 1], old(self.sequence_number))')
c.ensures('counter', 'self.sequence_number == (old(self.sequence_number) + 1) % 16777216')
c.ensures('counter-range', '0 <= self.sequence_number and self.sequence_number < 16777216')
c.modifies('self.sequence_number', 'ghost.csprng')


def _code(s, i):
    return z3.StrToCode(z3.SubString(s, i, 1))


def _alpha(n):
    """character code of the standard base64 alphabet at index n (0..63)"""
    return z3.If(n < 26, 65 + n, z3.If(n < 52, 97 + n - 26, z3.If(n < 62, 48 + n - 52,
                 z3.If(n == 62, 43, 47))))


def _ualpha(n):
    """after '/'->'_' and '+'->'-'"""
    return z3.If(n < 26, 65 + n, z3.If(n < 52, 97 + n - 26, z3.If(n < 62, 48 + n - 52,
                 z3.If(n == 62, 45, 95))))


def _sextets(b0, b1, b2):
    return [b0 / 4, (b0 % 4) * 16 + b1 / 16, (b1 % 16) * 4 + b2 / 64, b2 % 64]


def _sid_terms(eng, suffix):
    """(r, c, sid term, byte ints, library-axiom instances) for one symbolic id."""
    from pyvc import core
    st = core.State()
    st.ghost['$alloc'] = V(INT, z3.Int('alloc0'))
    r = z3.String('r' + suffix)
    c = z3.Int('c' + suffix)
    env = {'__parent__': None, '__mod__': 'spec', 'r': V(BYTES, r), 'c': V(INT, c)}
    n0 = len(eng.facts)
    sid = eng.spec('sid_of(r, c)', st, env).t
    ax = list(eng.facts[n0:])
    x = z3.Concat(r, lib.be3(c))
    e = lib.b64enc(x)
    s1 = lib.py_replace_all(lib.utf8_dec(e), z3.StringVal('/'), z3.StringVal('_'))
    prem = [z3.Length(r) == 12, c >= 0, c < M24]
    bs = []
    for i in range(12):
        b = _code(r, i)
        prem.append(z3.And(b >= 0, b <= 255))          # r is a byte string
        bs.append(b)
    # BE3 (assumed): big-endian bytes of a 24-bit integer
    be = lib.be3(c)
    ax += [z3.Length(be) == 3, _code(be, 0) == c / 65536, _code(be, 1) == (c / 256) % 256,
           _code(be, 2) == c % 256]
    bs += [c / 65536, (c / 256) % 256, c % 256]
    # B64-15 (assumed, RFC 4648, bit level, full groups): 15 bytes -> 20 characters
    ax.append(z3.Length(e) == 20)
    pos = {p: [] for p in range(20)}       # axiom instances that speak about position p
    for g in range(5):
        sx = _sextets(_code(x, 3 * g), _code(x, 3 * g + 1), _code(x, 3 * g + 2))
        for j in range(4):
            pos[4 * g + j].append(_code(e, 4 * g + j) == _alpha(sx[j]))
    # REPL1 (assumed): str.replace with one-character arguments works position by position
    for (src, a, b, dst) in ((lib.utf8_dec(e), '/', '_', s1), (s1, '+', '-', sid)):
        ax.append(z3.Length(dst) == z3.Length(src))
        for p in range(20):
            ch = z3.SubString(src, p, 1)
            pos[p].append(z3.SubString(dst, p, 1) ==
                          z3.If(ch == z3.StringVal(a), z3.StringVal(b), ch))
    return r, c, sid, bs, prem, ax, pos


def _c17(eng):
    r, c, sid, bs, prem, ax, pos = _sid_terms(eng, '1')
    out = []
    base = prem + ax
    # LINK: the id's characters are the url-safe alphabet images of the 20 sextets
    link = []
    for g in range(5):
        sx = _sextets(bs[3 * g], bs[3 * g + 1], bs[3 * g + 2])
        for j in range(4):
            link.append(_code(sid, 4 * g + j) == _ualpha(sx[j]))
    for k, l in enumerate(link):
        out.append(('link%02d' % k, base + pos[k], l))
    base2 = prem + [z3.Length(sid) == 20] + link      # proved above; used as premises below
    out.append(('length-20', base, z3.Length(sid) == 20))
    ok = []
    for p in range(20):
        ch = _code(sid, p)
        ok.append(z3.Or(z3.And(ch >= 65, ch <= 90), z3.And(ch >= 97, ch <= 122),
                        z3.And(ch >= 48, ch <= 57), ch == 45, ch == 95))
    out.append(('alphabet', base2, z3.And(*ok)))
    # INJ: equal ids have equal random bytes and equal counters (so the 96 CSPRNG bits are
    # recoverable from the id: BITS)
    r2, c2, sid2, bs2, prem2, ax2, pos2 = _sid_terms(eng, '2')
    link2 = []
    for g in range(5):
        sx = _sextets(bs2[3 * g], bs2[3 * g + 1], bs2[3 * g + 2])
        for j in range(4):
            link2.append(_code(sid2, 4 * g + j) == _ualpha(sx[j]))
    # chars-equal: equal ids agree character by character
    cheq = [_code(sid, p) == _code(sid2, p) for p in range(20)]
    out.append(('inj-chars', [sid == sid2], z3.And(*cheq)))
    # per group of 3 bytes / 4 characters: pure integer reasoning over fresh names
    for g in range(5):
        a = [z3.Int('a%d_%d' % (g, i)) for i in range(3)]
        b = [z3.Int('b%d_%d' % (g, i)) for i in range(3)]
        rng = [z3.And(v >= 0, v <= 255) for v in a + b]
        sa, sb = _sextets(*a), _sextets(*b)
        out.append(('inj-group%d' % g, rng + [_ualpha(sa[j]) == _ualpha(sb[j]) for j in range(4)],
                    z3.And(*[a[i] == b[i] for i in range(3)])))
    # instantiate the group lemma (proved above for all byte values) at the actual bytes
    for g in range(5):
        a, b = bs[3 * g:3 * g + 3], bs2[3 * g:3 * g + 3]
        sa, sb = _sextets(*a), _sextets(*b)
        inst = z3.Implies(z3.And(*[_ualpha(sa[j]) == _ualpha(sb[j]) for j in range(4)]),
                          z3.And(*[a[i] == b[i] for i in range(3)]))
        rngs = [z3.And(v >= 0, v <= 255) for v in a + b]
        out.append(('inj-bytes-group%d' % g,
                    prem + prem2 + rngs + link[4 * g:4 * g + 4] + link2[4 * g:4 * g + 4] +
                    cheq[4 * g:4 * g + 4] + [inst],
                    z3.And(*[a[i] == b[i] for i in range(3)])))
    byte_eq = [bs[k] == bs2[k] for k in range(15)]
    out.append(('inj-counter', prem + prem2 + byte_eq, c == c2))
    out.append(('inj-random', prem + prem2 + byte_eq, r == r2))
    out.append(('be3-byte-ranges', prem, z3.And(*[z3.And(v >= 0, v <= 255) for v in bs[12:]])))
    # WINDOW: 2^24 consecutive counter values are pairwise different, across the wrap
    s0, j, k = z3.Ints('s0 j k')
    out.append(('window', [s0 >= 0, s0 < M24, j >= 0, j < k, k < M24],
                (s0 + j) % M24 != (s0 + k) % M24))
    # STEP: the counter after n+1 issues is (s0 + n + 1) mod 2^24 (induction step for the
    # postcondition `counter` of generate_id)
    n = z3.Int('n')
    out.append(('counter-step', [s0 >= 0, s0 < M24, n >= 0],
                (((s0 + n) % M24) + 1) % M24 == (s0 + n + 1) % M24))
    return out


REG.pylemma('C17-ids', ['C17'], _c17,
            note='LEN-ALPHA, INJ/BITS, WINDOW over the spec function sid_of; library axioms '
                 'B64-15, BE3, REPL1 instantiated explicitly')

# ------------------------------------------------------------------------------------------ C13
from .schemas import ENV, HEADERS, RESP  # noqa: E402

CFG_OK = ('self.cors_allowed_origins is None or isinstance(self.cors_allowed_origins, str) or '
          'typeis(self.cors_allowed_origins, "liststr") or callable(self.cors_allowed_origins)')

c = REG.contract('base_server.BaseServer._cors_allowed_origins', props=['C13'])
c.param('self', Ref('BaseServer')).param('environ', ENV)
c.returns(ANY)
c.requires(CFG_OK, 'config-shape')
c.ensures('star-allows-all', "(result is None) == (self.cors_allowed_origins == '*')")
c.ensures('shape', "implies('HTTP_ORIGIN' in environ, result is None or typeis(result, 'liststr'))")
c.ensures('membership-of-request-origin',
          "implies(result is not None and isinstance(environ.get('HTTP_ORIGIN'), str), "
          "(environ.get('HTTP_ORIGIN') in result) == "
          "origin_allowed(self.cors_allowed_origins, environ, environ.get('HTTP_ORIGIN')))")

c = REG.contract('base_server.BaseServer._cors_headers', props=['C13'])
c.param('self', Ref('BaseServer')).param('environ', ENV)
c.returns(HEADERS)
c.requires(CFG_OK, 'config-shape')
c.requires("'REQUEST_METHOD' in environ", 'method-present')
c.ensures('disabled', 'implies(self.cors_allowed_origins == [], result == [])')
c.ensures('never-over-grants',
          "forall(lambda k: implies(result[k][0] == 'Access-Control-Allow-Origin', "
          "acao_expected(self.cors_allowed_origins, environ) and "
          "result[k][1] == environ['HTTP_ORIGIN']), 0, len(result))")
c.ensures('grants-allowed',
          "implies(acao_expected(self.cors_allowed_origins, environ), "
          "result[0] == ('Access-Control-Allow-Origin', environ['HTTP_ORIGIN']))")
c.ensures('credentials-only-when-enabled',
          "implies(self.cors_allowed_origins != [], "
          "(('Access-Control-Allow-Credentials', 'true') in result) == self.cors_credentials)")
c.ensures('credentials-header-only-true',
          "forall(lambda k: implies(result[k][0] == 'Access-Control-Allow-Credentials', "
          "self.cors_credentials and result[k][1] == 'true'), 0, len(result))")

# ------------------------------------------------------------------- response constructors
PKTS = List(Ref('Packet'))
CT_PLAIN = "result['headers'] == [('Content-Type', 'text/plain')]"

c = REG.contract('base_server.BaseServer._log_error_once')
c.trusted = True
c.trusted_reason = 'logging only (touches log_message_keys, which no property observes)'
c.param('self', Ref('BaseServer')).param('message', STR).param('message_key', STR)

for nm in ('_gzip', '_deflate'):
    c = REG.contract('base_server.BaseServer.' + nm, props=['C19'])
    c.trusted = True
    c.trusted_reason = 'gzip/zlib (C code): decompress(compress(x)) == x assumed'
    c.param('self', Ref('BaseServer')).param('response', BYTES)
    c.returns(BYTES)
    c.ensures('lossless', "result == compressed('%s', response)" % nm[1:])

c = REG.contract('base_server.BaseServer._bad_request', props=['C12', 'C15'])
c.param('self', Ref('BaseServer')).param('message', [NONE, STR])
c.returns(RESP)
c.ensures('status-400', "result['status'] == '400 BAD REQUEST'")
c.ensures('header-list-is-a-fresh-object', "unshared(result) and unshared(result['headers'])",
          props=['C19', 'C12'])
c.ensures('headers', CT_PLAIN)
c.ensures('body', "result['response'] == "
          "json_text('Bad Request' if message is None else message).encode('utf-8')")

c = REG.contract('base_server.BaseServer._method_not_found', props=['C12', 'C15'])
c.param('self', Ref('BaseServer'))
c.returns(RESP)
c.ensures('status-405', "result['status'] == '405 METHOD NOT FOUND'")
c.ensures('header-list-is-a-fresh-object', "unshared(result) and unshared(result['headers'])",
          props=['C19', 'C12'])
c.ensures('headers', CT_PLAIN)
c.ensures('body', "result['response'] == b'Method Not Found'")

c = REG.contract('base_server.BaseServer._unauthorized', props=['C11', 'C15'])
c.param('self', Ref('BaseServer')).param('message', ANY)
c.returns(RESP)
c.ensures('status-401', "result['status'] == '401 UNAUTHORIZED'")
c.ensures('header-list-is-a-fresh-object', "unshared(result) and unshared(result['headers'])",
          props=['C19', 'C12'])
c.ensures('headers', "result['headers'] == [('Content-Type', 'application/json')]")
c.ensures('body-carries-value', "result['response'] == "
          "json_text('Unauthorized' if message is None else message).encode('utf-8')")

c = REG.contract('base_server.BaseServer._ok', props=['C03', 'C11', 'C15', 'C19'])
c.param('self', Ref('BaseServer')).param('packets', [NONE, List(Ref('Packet', True))])
c.param('headers', [NONE, HEADERS]).param('jsonp_index', [NONE, INT])
c.returns(RESP)
c.requires('implies(packets is not None, forall(lambda k: packets[k] is not None and '
           'packet_ok(packets[k]), 0, len(packets)))', 'packets-encodable')
c.ensures('status-200', "result['status'] == '200 OK'")
c.ensures('header-list-is-a-fresh-object', "unshared(result) and unshared(result['headers'])",
          props=['C19', 'C12'])
c.ensures('no-packets-plain-ok', "implies(packets is None, result['response'] == b'OK' and " +
          CT_PLAIN + ")")
c.ensures('headers-kept-and-typed', "implies(packets is not None, result['headers'] == "
          "(headers or []) + [('Content-Type', 'text/plain; charset=UTF-8')])")
c.ensures('body-is-the-payload', "implies(packets is not None and jsonp_index is None, "
          "result['response'] == payload_text(packets, len(packets)).encode('utf-8'))",
          props=['C03', 'C02'])
c.ensures('jsonp-body', "implies(packets is not None and jsonp_index is not None, "
          "result['response'] == jsonp_body(jsonp_index, payload_text(packets, len(packets)))"
          ".encode('utf-8'))", props=['C19'])
c.modifies('Packet.encode_cache', 'new Payload.packets')

c = REG.contract('base_server.BaseServer._generate_sid_cookie', props=['C11'])
c.param('self', Ref('BaseServer')).param('sid', STR)
c.param('attributes', [Ty('rec', ('SameSite', STR), ('name', STR), ('path', STR)),
                        Dict(STR, ANY)])
c.returns(STR)
# dict configurations (documented attribute values: a string, a boolean, a callable): the contract
# covers string and boolean values; no exception may escape and the cookie starts with name=sid
c.requires("implies(not is_record(attributes), all_values(attributes, lambda v: "
           "isinstance(v, str) or isinstance(v, bool)) and "
           "implies('name' in attributes, isinstance(attributes['name'], str)))",
           'documented-attribute-values')
c.ensures('carries-sid-and-attributes', "implies(is_record(attributes), "
          "result == cookie_value(sid, attributes))")
c.ensures('dict-configuration-starts-with-name-and-sid', "implies(not is_record(attributes), "
          "result.startswith((attributes['name'] if 'name' in attributes else 'io') + '=' + sid))")
c.loop(0, index='i', invariants=[
    ('prefix-kept', "cookie.startswith((attributes['name'] if 'name' in attributes else 'io') + "
     "'=' + sid)")], modifies=['cookie', 'attribute', 'value'])
c.note('callable attribute values of a dict cookie configuration are not modelled')

# ------------------------------------------------------------------------ constructor (C11, C12)
# The configuration the other contracts read (ping timing, limits, the session table, the enabled
# transports) is established here.  Driver selection (importlib over async_drivers), the logger
# set-up and the process-wide JSON module switch are driver / logging glue and are abstract
# regions: nothing a property observes is computed there.
c = REG.contract('base_server.BaseServer.__init__', props=['C11', 'C12'])
c.param('self', Ref('BaseServer')).param('async_mode', [NONE, STR])
c.param('ping_interval', [REAL, Ty('tup', REAL, REAL)]).param('ping_timeout', REAL)
c.param('max_http_buffer_size', INT).param('allow_upgrades', BOOL)
c.param('http_compression', BOOL).param('compression_threshold', INT)
c.param('cookie', ANY).param('cors_allowed_origins', ANY).param('cors_credentials', BOOL)
c.param('logger', ANY).param('json', ANY).param('async_handlers', BOOL)
c.param('monitor_clients', [NONE, BOOL]).param('transports', [NONE, STR, List(STR)])
c.param('kwargs', Dict(STR, ANY))
for _pat, _why in (
        ('if json is not None:', 'process-wide JSON module switch (Packet.json; C01 assumes the '
         'standard module)'),
        ('if not isinstance(logger, bool):', 'logger set-up (logging only)'),
        ('modes = self.async_modes()', 'driver selection'),
        ('if async_mode is not None:', 'driver selection'),
        ('self._async = None', 'driver selection'),
        ('self.async_mode = None', 'driver selection'),
        ('for mode in modes:', 'driver selection (importlib over engineio.async_drivers)'),
        ('if self.async_mode is None:', 'driver selection: no usable driver'),
        ('if self.is_asyncio_based() and', 'driver selection: asyncio compatibility'),
        ('if not self.is_asyncio_based() and', 'driver selection: asyncio compatibility'),
        ("self.logger.info('Server initialized for %s.',", 'logging only')):
    c.abstract(_pat, _why)
c.may_raise('ValueError', 'transports is not None', label='no-valid-transport-given',
            props=['C12'])
c.ensures('timing-as-configured',
          'self.ping_timeout == ping_timeout and '
          'self.ping_interval == (ping_interval[0] if isinstance(ping_interval, tuple) '
          'else ping_interval) and '
          'self.ping_interval_grace_period == (ping_interval[1] if '
          'isinstance(ping_interval, tuple) else 0)')
c.ensures('limits-and-switches-as-configured',
          'self.max_http_buffer_size == max_http_buffer_size and '
          'self.allow_upgrades == allow_upgrades and '
          'self.http_compression == http_compression and '
          'self.compression_threshold == compression_threshold and '
          'self.cors_credentials == cors_credentials and '
          'self.async_handlers == async_handlers')
c.ensures('cookie-and-origins-as-configured',
          'self.cookie == cookie and self.cors_allowed_origins == cors_allowed_origins')
c.ensures('monitoring-defaults-on',
          'self.start_service_task == (monitor_clients if monitor_clients is not None else '
          'self._default_monitor_clients)')
c.ensures('empty-session-table', 'len(self.sockets) == 0 and len(self.handlers) == 0')
c.ensures('enabled-transports-valid-and-not-empty',
          "len(self.transports) > 0 and forall(lambda k: self.transports[k] == 'polling' or "
          "self.transports[k] == 'websocket', 0, len(self.transports))", props=['C12'])
c.ensures('all-transports-by-default',
          "implies(transports is None, self.transports == ['polling', 'websocket'])",
          props=['C12'])
c.ensures('a-valid-transport-name-enables-just-that-one',
          "implies(isinstance(transports, str) and (transports == 'polling' or "
          "transports == 'websocket'), self.transports == [transports])", props=['C12'])
c.modifies('self.ping_timeout', 'self.ping_interval', 'self.ping_interval_grace_period',
           'self.max_http_buffer_size', 'self.allow_upgrades', 'self.http_compression',
           'self.compression_threshold', 'self.cookie', 'self.cors_allowed_origins',
           'self.cors_credentials', 'self.async_handlers', 'self.sockets', 'self.handlers',
           'self.log_message_keys', 'self.start_service_task', 'self.service_task_handle',
           'self.service_task_event', 'self.transports')
c.loop(1, index='i', invariants=[
    ('kept-are-valid', "forall(lambda k: comp[k] == 'polling' or comp[k] == 'websocket', 0, "
     "len(comp))"),
    ('a-valid-first-element-is-kept-first',
     "implies(i >= 1 and (xs[0] == 'polling' or xs[0] == 'websocket'), "
     "len(comp) >= 1 and comp[0] == xs[0])")], elem_ty=STR)
