"""Contracts for payload.Payload (C02; JSONP clause: C19)."""
from pyvc.contract import REG
from pyvc.values import *  # noqa

PKTS = List(Ref('Packet'))

c = REG.contract('payload.Payload.__init__', props=['C02'])
c.param('self', Ref('Payload')).param('packets', [NONE, PKTS]).param('encoded_payload', [NONE, STR])
c.raises('ValueError', 'encoded_payload is not None and len(encoded_payload) > 0 and '
         'len(payload_body(encoded_payload).split("\\x1e")) > 16', label='too-many',
         ensures=[('nothing-kept', 'self.packets == []')])
c.may_raise('ValueError', 'encoded_payload is not None', ensures=[('nothing-kept', 'self.packets == []')])
c.may_raise('RecursionError', 'encoded_payload is not None', ensures=[('nothing-kept', 'self.packets == []')])
c.may_raise('KeyError', 'encoded_payload is not None and encoded_payload.startswith("d=")',
            ensures=[('nothing-kept', 'self.packets == []')])
c.ensures('given', 'implies(encoded_payload is None, self.packets == (packets or []))')
c.ensures('given-packets-untouched', "implies(encoded_payload is None, unchanged('Packet.binary', "
          "'Packet.packet_type', 'Packet.data', 'Packet.encode_cache'))")
c.ensures('decoded', 'implies(encoded_payload is not None and len(encoded_payload) > 0, '
          'len(self.packets) == len(payload_body(encoded_payload).split("\\x1e")) and '
          'len(self.packets) <= 16 and '
          'forall(lambda k: packet_is(self.packets[k], payload_body(encoded_payload).split("\\x1e")[k]), '
          '0, len(self.packets)))')
c.ensures('empty', 'implies(encoded_payload is not None and len(encoded_payload) == 0, self.packets == [])')
c.ensures('types-are-digits', 'implies(encoded_payload is not None, forall(lambda k: '
          '0 <= self.packets[k].packet_type and self.packets[k].packet_type <= 9 and '
          '(self.packets[k].packet_type == 4 or not is_bin(self.packets[k].data)), 0, len(self.packets)))')
c.modifies('self.packets')   # fields of the freshly built packets are outside every frame

c = REG.contract('payload.Payload.decode', props=['C02', 'C04', 'C14', 'C10'])
c.param('self', Ref('Payload')).param('encoded_payload', STR)
c.raises('ValueError', 'len(encoded_payload) > 0 and '
         'len(payload_body(encoded_payload).split("\\x1e")) > 16', label='too-many',
         ensures=[('nothing-kept', 'self.packets == []')])
c.may_raise('ValueError', 'True', ensures=[('nothing-kept', 'self.packets == []')])
c.may_raise('RecursionError', 'True', ensures=[('nothing-kept', 'self.packets == []')])
c.may_raise('KeyError', 'encoded_payload.startswith("d=")',
            ensures=[('nothing-kept', 'self.packets == []')])
c.ensures('empty', 'implies(len(encoded_payload) == 0, self.packets == [])')
c.ensures('types-are-digits', 'forall(lambda k: 0 <= self.packets[k].packet_type and '
          'self.packets[k].packet_type <= 9 and (self.packets[k].packet_type == 4 or '
          'not is_bin(self.packets[k].data)), 0, len(self.packets))')
c.ensures('decoded', 'implies(len(encoded_payload) > 0, '
          'len(self.packets) == len(payload_body(encoded_payload).split("\\x1e")) and '
          'len(self.packets) <= 16 and '
          'forall(lambda k: packet_is(self.packets[k], payload_body(encoded_payload).split("\\x1e")[k]), '
          '0, len(self.packets)))')
c.modifies('self.packets')   # fields of the freshly built packets are outside every frame
c.loop(0, index='i', elem_ty=Ref('Packet'),
       invariants=[('decoded-so-far',
                    'forall(lambda k: packet_is(comp[k], xs[k]), 0, i)'),
                   ('types-are-digits', 'forall(lambda k: 0 <= comp[k].packet_type and '
                    'comp[k].packet_type <= 9 and (comp[k].packet_type == 4 or '
                    'not is_bin(comp[k].data)), 0, i)'),
                   ('allocated', 'forall(lambda k: comp[k] <= alloc_now(), 0, i)')],
       modifies=['new Packet.binary', 'new Packet.packet_type', 'new Packet.data',
                 'new Packet.encode_cache'])

c = REG.contract('payload.Payload.encode', props=['C02', 'C19'])
c.param('self', Ref('Payload')).param('jsonp_index', [NONE, INT])
c.returns(STR)
c.requires('forall(lambda k: packet_ok(self.packets[k]), 0, len(self.packets))', 'packets-ok')
c.ensures('joined', 'implies(jsonp_index is None, '
          'result == payload_text(self.packets, len(self.packets)))', props=['C02', 'C10'])
c.ensures('jsonp-is-one-call-with-the-payload-as-string-literal',
          'implies(jsonp_index is not None, result == jsonp_body(jsonp_index, '
          'payload_text(self.packets, len(self.packets))))', props=['C19'])
c.ensures('packets-ok', 'forall(lambda k: packet_ok(self.packets[k]), 0, len(self.packets))')
c.modifies('Packet.encode_cache')
c.loop(0, index='i',
       invariants=[('joined', 'encoded_payload == payload_text(self.packets, i)'),
                   ('empty-iff-first', '(i == 0) == (encoded_payload == "")'),
                   ('packets-ok', 'forall(lambda k: packet_ok(self.packets[k]), 0, len(self.packets))')],
       modifies=['encoded_payload', 'Packet.encode_cache'])
