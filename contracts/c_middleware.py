"""Contracts for static_files.get_static_file and middleware.WSGIApp (C20)."""
from pyvc.contract import REG
from pyvc.values import *  # noqa
from .schemas import ENV
from .c_socket import SR

SF = Dict(STR, STR)       # static file mapping: url prefix -> file / directory name

REG.schema('WSGIApp', module='middleware', fields=dict(
    engineio_app=Ref('Server'), wsgi_app=Opaque('WSGIApplication', True), engineio_path=STR,
    static_files=SF))

c = REG.contract('static_files.get_static_file', props=['C20'])
c.param('path', STR).param('static_files', SF)
c.returns_cases(('no-mapping', 'True', NONE), ('empty-mapping', 'True', STR),
                ('file', 'True', Ty('rec', ('content_type', STR), ('filename', STR))))
c.requires("path == '' or path.startswith('/')", 'url-path')
c.note('only string-valued mappings are modelled (dict-valued entries with an explicit '
       'content_type are not)')
c.loop(0, invariants=[
    ('suffix-moved', 'old_path == path + extra_path'),
    ('still-a-url-path', "path == '' or path.startswith('/')"),
    ('extra-is-a-path', "extra_path == '' or extra_path.startswith('/')"),
    ('nothing-found-yet', 'f is None')],
    modifies=['path', 'extra_path', 'last', 'f'])
c.ghost_before('if path in static_files: f = static_files[path] else:', 'old_path', 'path')
c.ghost_before("if f['filename'].endswith('/') and extra_path.startswith('/'):", 'root0',
               "f['filename']")
c.ghost_before("if f['filename'].endswith('/') and extra_path.startswith('/'):", 'extra0',
               'extra_path')
c.check_before("if 'content_type' not in f:", 'served-file-is-root-plus-request-suffix',
               "old_path.endswith(extra0) and (f['filename'].startswith(root0 + extra0) or "
               "(root0.endswith('/') and extra0.startswith('/') and "
               "f['filename'].startswith(root0 + extra0[1:])))", props=['C20'])
c.ensures('request-with-dotdot-is-never-served', "implies(has_dotdot(path), result is None)",
          props=['C20'])

c = REG.contract('middleware.WSGIApp.not_found', props=['C20', 'C15'])
c.param('self', Ref('WSGIApp')).param('start_response', SR)
c.returns(List(BYTES))
c.requires('len(sr_log) == 0', 'fresh-request')
c.ensures('404', "sr_log == ['404 Not Found'] and result == [b'Not Found']")
c.modifies('ghost.sr_log', 'ghost.sr_headers')
