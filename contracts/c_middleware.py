"""Contracts for static_files.get_static_file and middleware.WSGIApp (C20)."""
from pyvc.contract import REG
from pyvc.values import *  # noqa
from .schemas import ENV
from .c_socket import SR

SF = Dict(STR, STR)       # static file mapping: url prefix -> file / directory name

REG.schema('WSGIApp', module='middleware', fields=dict(
    engineio_app=Opaque('EngineApp'), wsgi_app=Opaque('WSGIApplication', True), engineio_path=STR,
    static_files=SF))

c = REG.contract('static_files.get_static_file', props=['C20'])
c.param('path', STR).param('static_files', SF)
c.returns_cases(('no-mapping', 'True', NONE), ('empty-mapping', 'True', STR),
                ('file', 'True', Ty('rec', ('content_type', STR), ('filename', STR))))
c.requires("path == '' or path.startswith('/')", 'url-path')
c.note('only string-valued mappings are modelled (dict-valued entries with an explicit '
       'content_type are not)')
c.loop(0, invariants=[
    ('suffix-moved', 'path0 == path + extra_path'),
    ('still-a-url-path', "path == '' or path.startswith('/')"),
    ('extra-is-a-path', "extra_path == '' or extra_path.startswith('/')"),
    ('nothing-found-yet', 'f is None')],
    modifies=['path', 'extra_path', 'last', 'f'])
c.ghost_entry('path0', 'path')
c.ensures('served-file-is-root-plus-request-suffix',
          "implies(isinstance(result, dict), exists_split(lambda p, e: "
          "served_from(static_files, p, e, result['filename']) or "
          "served_from(static_files, p + '/', e, result['filename']), path))",
          props=['C20'], witnesses=[('path', 'extra_path'), ('path', "'/' + extra_path")])
c.ensures('empty-mapping-is-falsy', "implies(isinstance(result, str), result == '')")
c.ensures('request-with-dotdot-is-never-served', "implies(has_dotdot(path), result is None)",
          props=['C20'])

c = REG.contract('middleware.WSGIApp.not_found', props=['C20', 'C15'])
c.param('self', Ref('WSGIApp')).param('start_response', SR)
c.returns(List(BYTES))
c.requires('len(sr_log) == 0', 'fresh-request')
c.ensures('404', "sr_log == ['404 Not Found'] and result == [b'Not Found']")
c.modifies('ghost.sr_log', 'ghost.sr_headers')

c = REG.contract('middleware.WSGIApp.__call__', props=['C20'])
c.param('self', Ref('WSGIApp')).param('environ', ENV).param('start_response', SR)
c.returns_cases(('delegated', 'True', Opaque('AppResult')), ('served-here', 'True', List(BYTES)))
c.requires("'PATH_INFO' in environ and (environ['PATH_INFO'] == '' or "
           "environ['PATH_INFO'].startswith('/'))", 'gateway-environ')
c.requires('len(sr_log) == 0', 'fresh-request')
c.requires("self.engineio_path.startswith('/') and self.engineio_path.endswith('/')",
           'endpoint-normalised-by-init')
c.abstract("if 'gunicorn.socket' in environ:", 'gunicorn/eventlet socket adapter (driver glue)')
UNDER = "environ['PATH_INFO'].startswith(self.engineio_path)"
c.ensures('engine-exactly-under-the-endpoint', "(route == old(route) + ['engine']) == " + UNDER)
c.ensures('engine-request-untouched-here', 'implies(' + UNDER + ', len(sr_log) == 0 and '
          'opened == old(opened))')
c.ensures('static-file-served-with-its-type', 'implies(not ' + UNDER + ' and '
          "len(opened) > len(old(opened)), sr_log == ['200 OK'] and route == old(route) and "
          "len(opened) == len(old(opened)) + 1 and not has_dotdot(environ['PATH_INFO']) and "
          "len(sr_headers) == 1 and sr_headers[0][0] == 'Content-Type')")
c.ensures('otherwise-app-or-404', 'implies(not ' + UNDER + ' and opened == old(opened), '
          "(route == old(route) + ['app'] and self.wsgi_app is not None and len(sr_log) == 0) or "
          "(route == old(route) and sr_log == ['404 Not Found']))")
c.ensures('app-only-when-no-static-file-was-served', "implies(route == old(route) + ['app'], "
          'opened == old(opened))')
c.modifies('ghost.route', 'ghost.opened', 'ghost.sr_log', 'ghost.sr_headers')

c = REG.contract('middleware.WSGIApp.__init__', props=['C20'])
c.param('self', Ref('WSGIApp')).param('engineio_app', Opaque('EngineApp'))
c.param('wsgi_app', Opaque('WSGIApplication', True)).param('static_files', [NONE, SF])
c.param('engineio_path', STR)
c.ensures('endpoint-normalised', 'self.engineio_path == norm_endpoint(engineio_path)')
c.ensures('fields', 'self.engineio_app == engineio_app and self.wsgi_app == wsgi_app and '
          'implies(static_files is not None and len(static_files) > 0, '
          'self.static_files == static_files) and '
          'implies(static_files is None, len(self.static_files) == 0)')
c.modifies('self.engineio_app', 'self.wsgi_app', 'self.engineio_path', 'self.static_files')

# ------------------------------------------------------------------------------------ ASGIApp (C20)
REG.schema('ASGIApp', module='async_drivers.asgi', fields=dict(
    engineio_server=Opaque('EngineApp'), other_asgi_app=Opaque('WSGIApplication', True),
    engineio_path=ANY, static_files=SF, on_startup=Opaque('LifespanCallback', True),
    on_shutdown=Opaque('LifespanCallback', True)))
SCOPE = Ty('dict', STR, ANY, (('type', STR), ('path', STR)))
RCV, SND = Opaque('AsgiReceive'), Opaque('AsgiSend')
APP_WF = ("(self.engineio_path is None or (isinstance(self.engineio_path, str) and "
          "self.engineio_path.startswith('/') and self.engineio_path.endswith('/')))")

REG.contract('async_drivers.asgi.ASGIApp._ensure_trailing_slash').inline = True

c = REG.contract('async_drivers.asgi.ASGIApp.not_found', props=['C20'])
c.param('self', Ref('ASGIApp')).param('receive', RCV).param('send', SND)
c.ensures('404', "asgi_log == old(asgi_log) + ['http.response.start', 'http.response.body'] and "
          "asgi_status == old(asgi_status) + [404] and route == old(route) and "
          "opened == old(opened)")
c.modifies('ghost.asgi_log', 'ghost.asgi_status', 'ghost.asgi_ctype', 'ghost.now')

c = REG.contract('async_drivers.asgi.ASGIApp.serve_static_file', props=['C20'])
c.param('self', Ref('ASGIApp')).param('static_file', Ty('rec', ('content_type', STR), ('filename', STR)))
c.param('receive', RCV).param('send', SND)
c.ensures('serves-that-file-with-its-type-or-nothing',
          "(asgi_log == old(asgi_log) and opened == old(opened) and asgi_status == old(asgi_status)) or "
          "(asgi_log == old(asgi_log) + ['http.response.start', 'http.response.body'] and "
          "asgi_status == old(asgi_status) + [200] and opened == old(opened) + [static_file['filename']] "
          "and asgi_ctype == old(asgi_ctype) + [b'Content-Type', static_file['content_type'].encode('utf-8')])")
c.ensures('not-routed', 'route == old(route)')
c.modifies('ghost.asgi_log', 'ghost.asgi_status', 'ghost.asgi_ctype', 'ghost.opened', 'ghost.now')

c = REG.contract('async_drivers.asgi.ASGIApp.lifespan', props=['C20'])
c.param('self', Ref('ASGIApp')).param('scope', SCOPE).param('receive', RCV).param('send', SND)
DELEG = ('self.other_asgi_app is not None and self.on_startup is None and '
         'self.on_shutdown is None')
c.ensures('passed-to-wrapped-app-when-no-callbacks', 'implies(' + DELEG + ", route == old(route) + "
          "['app'] and asgi_log == old(asgi_log) and callbacks == old(callbacks))")
c.ensures('answered-per-protocol', 'implies(not (' + DELEG + '), route == old(route) and '
          'lifespan_answers(asgi_log, len(old(asgi_log))))')
c.ensures('failed-exactly-when-the-callback-raised', 'implies(not (' + DELEG + '), '
          '(cb_raised == old(cb_raised) or cb_raised == old(cb_raised) + 1) and '
          '(cb_raised == old(cb_raised) + 1) == (len(asgi_log) > len(old(asgi_log)) and '
          "(asgi_log[len(asgi_log) - 1] == 'lifespan.startup.failed' or "
          "asgi_log[len(asgi_log) - 1] == 'lifespan.shutdown.failed')))")
c.modifies('ghost.asgi_log', 'ghost.route', 'ghost.callbacks', 'ghost.cb_raised', 'ghost.now')
c.loop(0, invariants=[
    ('not-delegated', 'not (' + DELEG + ') and route == old(route)'),
    ('no-callback-raised-so-far', 'cb_raised == old(cb_raised)'),
    ('only-startup-answers-so-far', 'grows(asgi_log, old(asgi_log)) and '
     "forall(lambda k: asgi_log[k] == 'lifespan.startup.complete', len(old(asgi_log)), len(asgi_log))")],
    modifies=['event', 'ghost.asgi_log', 'ghost.callbacks', 'ghost.cb_raised', 'ghost.now'])

c = REG.contract('async_drivers.asgi.ASGIApp.__call__', props=['C20'])
c.param('self', Ref('ASGIApp')).param('scope', SCOPE).param('receive', RCV).param('send', SND)
c.requires("'type' in scope and 'path' in scope and (scope['path'] == '' or "
           "scope['path'].startswith('/'))", 'asgi-scope')
c.requires(APP_WF, 'endpoint-normalised-by-init')
AUNDER = ("(scope['type'] == 'http' or scope['type'] == 'websocket') and "
          "(self.engineio_path is None or "
          "(scope['path'] if scope['path'].endswith('/') else scope['path'] + '/')"
          ".startswith(self.engineio_path))")
LIFE = "scope['type'] == 'lifespan'"
c.ensures('lifespan-handled-by-lifespan', 'implies(' + LIFE + ', opened == old(opened) and '
          'asgi_status == old(asgi_status))')
c.ensures('engine-exactly-under-the-endpoint', 'implies(not ' + LIFE + ", (route == old(route) + "
          "['engine']) == (" + AUNDER + '))')
c.ensures('engine-request-untouched-here', 'implies(not ' + LIFE + ' and ' + AUNDER + ', '
          'asgi_log == old(asgi_log) and opened == old(opened))')
c.ensures('static-file-only-for-http-and-never-with-dotdot', 'implies(len(opened) > len(old(opened)), '
          "scope['type'] == 'http' and not (" + AUNDER + ") and not has_dotdot(scope['path']) and "
          "route == old(route) and len(opened) == len(old(opened)) + 1 and "
          "asgi_status == old(asgi_status) + [200])")
c.ensures('otherwise-app-or-404', 'implies(not ' + LIFE + ' and not (' + AUNDER + ') and '
          'opened == old(opened) and asgi_log != old(asgi_log), '
          "route == old(route) and self.other_asgi_app is None and asgi_status == old(asgi_status) + [404])")
c.ensures('app-only-when-nothing-served-here', "implies(not " + LIFE + " and route == old(route) + ['app'], "
          'opened == old(opened) and asgi_log == old(asgi_log) and self.other_asgi_app is not None)')
c.modifies('ghost.route', 'ghost.opened', 'ghost.asgi_log', 'ghost.asgi_status', 'ghost.asgi_ctype',
           'ghost.callbacks', 'ghost.cb_raised', 'ghost.now')

c = REG.contract('async_drivers.asgi.ASGIApp.__init__', props=['C20'])
c.param('self', Ref('ASGIApp')).param('engineio_server', Opaque('EngineApp'))
c.param('other_asgi_app', Opaque('WSGIApplication', True)).param('static_files', [NONE, SF])
c.param('engineio_path', [NONE, STR])
c.param('on_startup', Opaque('LifespanCallback', True)).param('on_shutdown', Opaque('LifespanCallback', True))
c.ensures('endpoint-normalised', APP_WF + ' and (self.engineio_path is None) == (engineio_path is None) '
          'and implies(engineio_path is not None, self.engineio_path == norm_endpoint(engineio_path))')
c.ensures('fields', 'self.engineio_server == engineio_server and self.other_asgi_app == other_asgi_app '
          'and self.on_startup == on_startup and self.on_shutdown == on_shutdown and '
          'implies(static_files is not None and len(static_files) > 0, '
          'self.static_files == static_files) and '
          'implies(static_files is None, len(self.static_files) == 0)')
c.modifies('self.engineio_server', 'self.other_asgi_app', 'self.engineio_path', 'self.static_files',
           'self.on_startup', 'self.on_shutdown')
