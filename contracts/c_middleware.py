"""Contracts for static_files.get_static_file and middleware.WSGIApp (C20)."""
from pyvc.contract import REG
from pyvc.values import *  # noqa
from .schemas import ENV
from .c_socket import SR

SF = Dict(STR, STR)       # static file mapping: url prefix -> file / directory name

REG.schema('WSGIApp', module='middleware', fields=dict(
    engineio_app=Opaque('EngineApp'), wsgi_app=Opaque('WSGIApplication', True), engineio_path=STR,
    static_files=SF))

c = REG.contract('static_files.get_static_file', props=['C20'])
c.param('path', STR).param('static_files', SF)
c.returns_cases(('no-mapping', 'True', NONE), ('empty-mapping', 'True', STR),
                ('file', 'True', Ty('rec', ('content_type', STR), ('filename', STR))))
c.requires("path == '' or path.startswith('/')", 'url-path')
c.note('only string-valued mappings are modelled (dict-valued entries with an explicit '
       'content_type are not)')
c.loop(0, invariants=[
    ('suffix-moved', 'path0 == path + extra_path'),
    ('still-a-url-path', "path == '' or path.startswith('/')"),
    ('extra-is-a-path', "extra_path == '' or extra_path.startswith('/')"),
    ('nothing-found-yet', 'f is None')],
    modifies=['path', 'extra_path', 'last', 'f'])
c.ghost_entry('path0', 'path')
c.ensures('served-file-is-root-plus-request-suffix',
          "implies(isinstance(result, dict), exists_split(lambda p, e: "
          "served_from(static_files, p, e, result['filename']) or "
          "served_from(static_files, p + '/', e, result['filename']), path))",
          props=['C20'], witnesses=[('path', 'extra_path'), ('path', "'/' + extra_path")])
c.ensures('empty-mapping-is-falsy', "implies(isinstance(result, str), result == '')")
c.ensures('request-with-dotdot-is-never-served', "implies(has_dotdot(path), result is None)",
          props=['C20'])

c = REG.contract('middleware.WSGIApp.not_found', props=['C20', 'C15'])
c.param('self', Ref('WSGIApp')).param('start_response', SR)
c.returns(List(BYTES))
c.requires('len(sr_log) == 0', 'fresh-request')
c.ensures('404', "sr_log == ['404 Not Found'] and result == [b'Not Found']")
c.modifies('ghost.sr_log', 'ghost.sr_headers')

c = REG.contract('middleware.WSGIApp.__call__', props=['C20'])
c.param('self', Ref('WSGIApp')).param('environ', ENV).param('start_response', SR)
c.returns_cases(('delegated', 'True', Opaque('AppResult')), ('served-here', 'True', List(BYTES)))
c.requires("'PATH_INFO' in environ and (environ['PATH_INFO'] == '' or "
           "environ['PATH_INFO'].startswith('/'))", 'gateway-environ')
c.requires('len(sr_log) == 0', 'fresh-request')
c.requires("self.engineio_path.startswith('/') and self.engineio_path.endswith('/')",
           'endpoint-normalised-by-init')
c.abstract("if 'gunicorn.socket' in environ:", 'gunicorn/eventlet socket adapter (driver glue)')
UNDER = "environ['PATH_INFO'].startswith(self.engineio_path)"
c.ensures('engine-exactly-under-the-endpoint', "(route == old(route) + ['engine']) == " + UNDER)
c.ensures('engine-request-untouched-here', 'implies(' + UNDER + ', len(sr_log) == 0 and '
          'opened == old(opened))')
c.ensures('static-file-served-with-its-type', 'implies(not ' + UNDER + ' and '
          "len(opened) > len(old(opened)), sr_log == ['200 OK'] and route == old(route) and "
          "len(opened) == len(old(opened)) + 1 and not has_dotdot(environ['PATH_INFO']) and "
          "len(sr_headers) == 1 and sr_headers[0][0] == 'Content-Type')")
c.ensures('otherwise-app-or-404', 'implies(not ' + UNDER + ' and opened == old(opened), '
          "(route == old(route) + ['app'] and self.wsgi_app is not None and len(sr_log) == 0) or "
          "(route == old(route) and sr_log == ['404 Not Found']))")
c.ensures('app-only-when-no-static-file-was-served', "implies(route == old(route) + ['app'], "
          'opened == old(opened))')
c.modifies('ghost.route', 'ghost.opened', 'ghost.sr_log', 'ghost.sr_headers')

c = REG.contract('middleware.WSGIApp.__init__', props=['C20'])
c.param('self', Ref('WSGIApp')).param('engineio_app', Opaque('EngineApp'))
c.param('wsgi_app', Opaque('WSGIApplication', True)).param('static_files', [NONE, SF])
c.param('engineio_path', STR)
c.ensures('endpoint-normalised', 'self.engineio_path == norm_endpoint(engineio_path)')
c.ensures('fields', 'self.engineio_app == engineio_app and self.wsgi_app == wsgi_app and '
          'implies(static_files is not None and len(static_files) > 0, '
          'self.static_files == static_files) and '
          'implies(static_files is None, len(self.static_files) == 0)')
c.modifies('self.engineio_app', 'self.wsgi_app', 'self.engineio_path', 'self.static_files')
