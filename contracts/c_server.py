"""Contracts for the session table and the application-facing API (C16, C03, C12, C15)."""
from pyvc.contract import REG
from pyvc.values import *  # noqa
from .schemas import ENV, HEADERS, RESP
from .c_socket import SOCK_WF, QUIET

SRV = [Ref('Server'), Ref('AsyncServer'), Ref('BaseServer')]


def sock_of(typing):
    return {'Server': Ref('Socket'), 'AsyncServer': Ref('AsyncSocket')}.get(
        typing['self'].args[0], Ref('BaseSocket'))


DEAD = 'sid not in self.sockets or self.sockets[sid].closed'

# ---------------------------------------------------------------------------------- _get_socket
c = REG.contract('base_server.BaseServer._get_socket', props=['C12', 'C16', 'C03'])
c.param('self', SRV).param('sid', STR)
c.returns(sock_of)
c.raises('KeyError', DEAD, label='dead-id-raises', ensures=[
    ('closed-session-reaped', 'implies(sid in old(self.sockets), '
     'self.sockets == dict_del(old(self.sockets), sid))'),
    ('unknown-id-no-effect', 'implies(sid not in old(self.sockets), '
     'self.sockets == old(self.sockets))')], props=['C16'])
c.ensures('live-socket', 'result == self.sockets[sid] and not result.closed')
c.ensures('table-unchanged', 'self.sockets == old(self.sockets)')
c.modifies('self.sockets')

c = REG.contract('base_server.BaseServer.transport', props=['C12', 'C16'])
c.param('self', SRV).param('sid', STR)
c.returns(STR)
c.raises('KeyError', DEAD, label='dead-id-raises', ensures=[
    ('others-untouched', 'self.sockets == old(self.sockets) or '
     'self.sockets == dict_del(old(self.sockets), sid)')], props=['C16'])
c.ensures('names-actual-transport', "result == ('websocket' if self.sockets[sid].upgraded "
          "else 'polling')")
c.ensures('table-unchanged', 'self.sockets == old(self.sockets)')
c.modifies('self.sockets')

# ------------------------------------------------------------------------------------ _upgrades
c = REG.contract('base_server.BaseServer._upgrades', props=['C11'])
c.param('self', SRV).param('sid', STR).param('transport', STR)
c.returns(List(STR))
c.requires('sid in self.sockets and not self.sockets[sid].closed', 'live-session')
c.ensures('websocket-only-when-an-upgrade-would-be-accepted',
          "result == (['websocket'] if (self.allow_upgrades and 'websocket' in self.transports "
          "and self._async['websocket'] is not None and not self.sockets[sid].upgraded and "
          "transport != 'websocket') else [])")
c.ensures('table-unchanged', 'self.sockets == old(self.sockets)')
c.modifies('self.sockets')

# ------------------------------------------------------------------------- send / send_packet
for cls, mod in (('Server', 'server'), ('AsyncServer', 'async_server')):
    c = REG.contract('%s.%s.send_packet' % (mod, cls), props=['C03', 'C15', 'C16'])
    c.param('self', Ref(cls)).param('sid', STR).param('pkt', Ref('Packet'))
    c.requires('implies(sid in self.sockets, sock_wf(self.sockets[sid]))', 'socket-wf')
    c.requires('0 <= pkt.packet_type and pkt.packet_type <= 6', 'packet-type')
    c.ensures('dead-id-is-silent-noop', 'implies(old(' + DEAD + '), events == old(events) and '
              'spawned == old(spawned) and (self.sockets == old(self.sockets) or '
              'self.sockets == dict_del(old(self.sockets), sid)))', props=['C16'])
    c.ensures('enqueued-on-that-session-once', 'implies(not old(' + DEAD + ') and '
              'not old(ping_expired(self.sockets[sid], now)), '
              'self.sockets[sid].queue.accepted == old(self.sockets[sid].queue.accepted) + [pkt] '
              'and self.sockets == old(self.sockets))', props=['C03'])
    c.modifies('self.sockets', 'Socket.closing', 'Socket.closed', 'Queue.items', 'Queue.unf',
               'Queue.taken', 'Queue.accepted', 'Queue.put_none', 'Queue.taken_none',
               'ghost.events', 'ghost.now', 'ghost.spawned')
