"""Contracts for the session table and the application-facing API (C16, C03, C12, C15)."""
from pyvc.contract import REG
from pyvc.values import *  # noqa
from .schemas import ENV, HEADERS, RESP
from .c_socket import SOCK_WF, QUIET

SRV = [Ref('Server'), Ref('AsyncServer'), Ref('BaseServer')]


def sock_of(typing):
    return {'Server': Ref('Socket'), 'AsyncServer': Ref('AsyncSocket')}.get(
        typing['self'].args[0], Ref('BaseSocket'))


DEAD = 'sid not in self.sockets or self.sockets[sid].closed'

# ---------------------------------------------------------------------------------- _get_socket
c = REG.contract('base_server.BaseServer._get_socket', props=['C12', 'C16', 'C03'])
c.param('self', SRV).param('sid', STR)
c.returns(sock_of)
c.raises('KeyError', DEAD, label='dead-id-raises', ensures=[
    ('closed-session-reaped', 'implies(sid in old(self.sockets), '
     'self.sockets == dict_del(old(self.sockets), sid))'),
    ('unknown-id-no-effect', 'implies(sid not in old(self.sockets), '
     'self.sockets == old(self.sockets))')], props=['C16'])
c.ensures('live-socket', 'result == self.sockets[sid] and not result.closed')
c.ensures('table-unchanged', 'self.sockets == old(self.sockets)')
c.modifies('self.sockets')

c = REG.contract('base_server.BaseServer.transport', props=['C12', 'C16'])
c.param('self', SRV).param('sid', STR)
c.returns(STR)
c.raises('KeyError', DEAD, label='dead-id-raises', ensures=[
    ('others-untouched', 'self.sockets == old(self.sockets) or '
     'self.sockets == dict_del(old(self.sockets), sid)')], props=['C16'])
c.ensures('names-actual-transport', "result == ('websocket' if self.sockets[sid].upgraded "
          "else 'polling')")
c.ensures('table-unchanged', 'self.sockets == old(self.sockets)')
c.modifies('self.sockets')

# ------------------------------------------------------------------------------------ _upgrades
c = REG.contract('base_server.BaseServer._upgrades', props=['C11'])
c.param('self', SRV).param('sid', STR).param('transport', STR)
c.returns(List(STR))
c.requires('sid in self.sockets and not self.sockets[sid].closed', 'live-session')
c.ensures('websocket-only-when-an-upgrade-would-be-accepted',
          "result == (['websocket'] if (self.allow_upgrades and 'websocket' in self.transports "
          "and self._async['websocket'] is not None and not self.sockets[sid].upgraded and "
          "transport != 'websocket') else [])")
c.ensures('table-unchanged', 'self.sockets == old(self.sockets)')
c.modifies('self.sockets')

# ------------------------------------------------------------------------- send / send_packet
for cls, mod in (('Server', 'server'), ('AsyncServer', 'async_server')):
    c = REG.contract('%s.%s.send_packet' % (mod, cls), props=['C03', 'C15', 'C16'])
    c.param('self', Ref(cls)).param('sid', STR).param('pkt', Ref('Packet'))
    c.requires('implies(sid in self.sockets, sock_wf(self.sockets[sid]))', 'socket-wf')
    c.requires('0 <= pkt.packet_type and pkt.packet_type <= 6', 'packet-type')
    c.requires('packet_ok(pkt)', 'packet-wf')
    c.ensures('dead-id-is-silent-noop', 'implies(old(' + DEAD + '), events == old(events) and hresults == old(hresults) and '
              'spawned == old(spawned) and (self.sockets == old(self.sockets) or '
              'self.sockets == dict_del(old(self.sockets), sid)))', props=['C16'])
    c.ensures('enqueued-on-that-session-once', 'implies(not old(' + DEAD + ') and '
              'not old(ping_expired(self.sockets[sid], now)), '
              'self.sockets == old(self.sockets) and '
              'self.sockets[sid].queue.accepted == old(self.sockets[sid].queue.accepted) + [pkt])',
              props=['C03'])
    c.modifies('self.sockets', 'Socket.closing', 'Socket.closed', 'Queue.items', 'Queue.unf',
               'Queue.taken', 'Queue.accepted', 'Queue.put_none', 'Queue.taken_none',
               'ghost.events', 'ghost.hresults', 'ghost.now', 'ghost.spawned')

# ------------------------------------------------------------------------------ _handle_connect
REG.contract('base_socket.BaseSocket.__init__').inline = True
from .c_socket import QI, WS_MOD, SR  # noqa: E402

NEW_SID = 'sid_of(csprng[len(old(csprng))], old(self.sequence_number))'
SERVER_WF = ('self.ping_timeout >= 0 and self.ping_interval >= 0 and '
             'self.ping_interval_grace_period >= 0 and self.max_http_buffer_size >= 0 and '
             '0 <= self.sequence_number and self.sequence_number < 16777216 and '
             '(self.cookie is None or isinstance(self.cookie, str))')
for _cls, _mod in (('Server', 'server'), ('AsyncServer', 'async_server')):
    c = REG.contract('%s.%s._handle_connect' % (_mod, _cls), props=['C05', 'C11', 'C16', 'C06'])
    c.shards = 8
    c.param('self', Ref(_cls)).param('environ', ENV)
    if _cls == 'Server':
        c.param('start_response', SR)
    c.param('transport', STR).param('jsonp_index', [NONE, INT])
    c.returns_cases(('http-response', "transport != 'websocket' or "
                     "self._async['websocket'] is None or True", RESP),
                    ('websocket-session', "transport == 'websocket'", QI),
                    # (the asyncio drivers' upgrade call returns None)
                    *([('websocket-session-over', "transport == 'websocket'", NONE)]
                      if _cls == 'AsyncServer' else []))
    c.requires(SERVER_WF, 'server-wf')
    c.requires("transport == 'polling' or transport == 'websocket'", 'transport')
    c.requires("'connect' in self.handlers and handler_accepts(self.handlers['connect'], 2)",
               'connect-handler-registered')
    # C07: the heartbeat is armed at the OPEN: when the connect handler is about to run, the last
    # background task started is this session's _send_ping (PING one ping_interval after the OPEN)
    c.check_before("ret = self._trigger_event('connect'" if _cls == 'Server' else
                   "ret = await self._trigger_event('connect'", 'heartbeat-armed-at-open',
                   "len(spawned) > len(old(spawned)) and "
                   "spawned[len(spawned) - 1] == mk_task('_send_ping', s)", props=['C07', 'C16'])
    c.may_raise('Exception', "transport == 'websocket'", label='websocket-driver-error')
    c.ensures('id-issued', 'len(csprng) == len(old(csprng)) + 1', props=['C11', 'C17'])
    c.ensures('only-the-new-id-is-touched', 'dict_del(self.sockets, ' + NEW_SID + ') == '
              'dict_del(old(self.sockets), ' + NEW_SID + ')', props=['C11', 'C16'])
    c.ensures('connect-handler-first-and-once',
              "events[0:len(old(events))] == old(events) and len(events) > len(old(events)) and "
              "ev_handler(events[len(old(events))]) == self.handlers['connect'] and "
              "ev_arg0(events[len(old(events))]) == " + NEW_SID, props=['C05', 'C11'])
    NEWQ = 'self.sockets[' + NEW_SID + '].queue'
    # the accept / reject decision is checked where it is taken: the connection proceeds only for
    # None / True (by identity: 1 or 1.0 are JSON values and must be rejected), and is discarded
    # only otherwise; `ret` is what the connect handler returned, or False when it raised
    # (postconditions of _trigger_event)
    c.check_before("if transport == 'websocket':", 'accepted-only-for-None-or-True',
                   'connect_accepted(ret)', props=['C11'])
    c.check_before('return self._unauthorized(ret or None)', 'rejected-only-for-other-values',
                   'not connect_accepted(ret)', props=['C11'])
    c.ensures('rejected-id-never-addressable', "implies(transport == 'polling' and "
              "result['status'] == '401 UNAUTHORIZED', " + NEW_SID + " not in self.sockets)",
              props=['C11', 'C16'])
    c.ensures('status-is-200-401-or-400', "implies(isinstance(result, dict), result['status'] in "
              "('200 OK', '401 UNAUTHORIZED', '400 BAD REQUEST'))", props=['C11', 'C15'])
    c.ensures('accepted-session-created', "implies(transport == 'polling' and "
              "result['status'] == '200 OK', " + NEW_SID + " in self.sockets and "
              "self.sockets[" + NEW_SID + "].connected and self.sockets[" + NEW_SID + "].sid == " +
              NEW_SID + " and not self.sockets[" + NEW_SID + "].upgraded)", props=['C11'])
    c.ensures('open-packet-first-and-reflects-configuration',
              "implies(transport == 'polling' and result['status'] == '200 OK', "
              "len(" + NEWQ + ".taken) >= 1 and " + NEWQ + ".taken[0].packet_type == 0 and " +
              NEWQ + ".taken[0].data == open_info(self, " + NEW_SID + ", transport))",
              props=['C11'])
    c.ensures('response-carries-the-taken-packets',
              "implies(transport == 'polling' and result['status'] == '200 OK' and "
              "jsonp_index is None, result['response'] == payload_text(" + NEWQ + ".taken, "
              "len(" + NEWQ + ".taken)).encode('utf-8'))", props=['C11', 'C03'])
    c.ensures('cookie-exactly-when-configured',
              "implies(transport == 'polling' and result['status'] == '200 OK', "
              "result['headers'] == ([('Set-Cookie', cookie_value(" + NEW_SID + ", "
              "{'name': self.cookie, 'path': '/', 'SameSite': 'Lax'}))] if self.cookie else []) + "
              "[('Content-Type', 'text/plain; charset=UTF-8')])", props=['C11'])
    c.ensures('no-response-sent-by-an-http-answer', "implies(isinstance(result, dict), "
              "sr_log == old(sr_log))", props=['C15'])
    c.ensures('polling-accept-or-reject-adds-no-other-event', "implies(transport == 'polling', "
              "len(events) == len(old(events)) + 1)", props=['C05'])
    c.modifies('self.sockets', 'self.sequence_number', 'self.start_service_task',
               'self.service_task_handle', 'ghost.csprng', 'ghost.events', 'ghost.hresults', 'ghost.spawned',
               'ghost.now', 'ghost.ws_log', 'ghost.received', 'ghost.sr_log', 'ghost.sr_headers',
               'Packet.encode_cache')      # the new socket, its queue and packets are fresh objects

# ----------------------------------------------------------------------------------- disconnect
TABLE_WF = 'all_values(self.sockets, lambda s: sock_wf(s))'
SRV_MOD = ['self.sockets', 'Socket.closing', 'Socket.closed', 'Queue.items', 'Queue.unf',
           'Queue.taken', 'Queue.accepted', 'Queue.put_none', 'Queue.taken_none',
           'ghost.events', 'ghost.hresults', 'ghost.now', 'ghost.spawned']
for _cls, _mod in (('Server', 'server'), ('AsyncServer', 'async_server')):
    c = REG.contract('%s.%s.disconnect' % (_mod, _cls), props=['C05', 'C15', 'C16'])
    # asyncio disconnect(None) closes all sessions in concurrent tasks (asyncio.wait over
    # create_task): outside the sequential model, so the asyncio contract covers disconnect(sid)
    c.param('self', Ref(_cls)).param('sid', [NONE, STR] if _cls == 'Server' else STR)
    c.requires(TABLE_WF, 'sockets-wf')
    c.ensures('dead-id-is-silent-noop', 'implies(sid is not None and old(' + DEAD + '), '
              'events == old(events) and hresults == old(hresults) and (self.sockets == old(self.sockets) or '
              'self.sockets == dict_del(old(self.sockets), sid)))', props=['C16'])
    c.ensures('live-session-closed-and-removed', 'implies(sid is not None and not old(' + DEAD + '), '
              'sid not in self.sockets and old(self.sockets)[sid].closing and '
              'dict_del(self.sockets, sid) == dict_del(old(self.sockets), sid))',
              props=['C05', 'C16'])
    # (stated over the session object's own back-reference and sid field: that the table key is
    # the session's sid and that its server is this server is established where the session is
    # created - _handle_connect - and is not part of the table invariant used here)
    c.ensures('server-disconnect-reason', "implies(sid is not None and not old(" + DEAD + ") and "
              "not old(self.sockets[sid].closing) and "
              "'disconnect' in old(self.sockets[sid]).server.handlers, "
              "one_disconnect(events, old(events), "
              "old(self.sockets[sid]).server.handlers['disconnect'], "
              "old(self.sockets[sid].sid), 'server disconnect'))", props=['C05'])
    c.ensures('all-sessions-removed', 'implies(sid is None, len(self.sockets) == 0)', props=['C16'])
    c.ensures('events-only-grow', 'grows(events, old(events))')
    c.modifies(*SRV_MOD)
    if _cls == 'Server':
        c.loop(0, index='i', invariants=[('events-only-grow', 'grows(events, old(events))'),
                                         ('sockets-wf', TABLE_WF)],
               modifies=['Socket.closing', 'Socket.closed', 'Queue.items', 'Queue.unf',
                         'Queue.taken', 'Queue.accepted', 'Queue.put_none', 'Queue.taken_none',
                         'ghost.events', 'ghost.hresults', 'ghost.now', 'ghost.spawned'])

for cls, mod in (('Server', 'server'), ('AsyncServer', 'async_server')):
    c = REG.contract('%s.%s.send' % (mod, cls), props=['C03', 'C15', 'C16'])
    c.param('self', Ref(cls)).param('sid', STR).param('data', ANY)
    c.requires('implies(sid in self.sockets, sock_wf(self.sockets[sid]))', 'socket-wf')
    c.requires('api_payload(4, data)', 'api-payload')
    c.ensures('dead-id-is-silent-noop', 'implies(old(' + DEAD + '), events == old(events) and hresults == old(hresults) and '
              'spawned == old(spawned) and (self.sockets == old(self.sockets) or '
              'self.sockets == dict_del(old(self.sockets), sid)))', props=['C16'])
    c.ensures('one-message-enqueued-on-that-session', 'implies(not old(' + DEAD + ') and '
              'not old(ping_expired(self.sockets[sid], now)), '
              'self.sockets == old(self.sockets) and '
              'len(self.sockets[sid].queue.accepted) == '
              'len(old(self.sockets[sid].queue.accepted)) + 1 and '
              'self.sockets[sid].queue.accepted[len(old(self.sockets[sid].queue.accepted))]'
              '.packet_type == 4 and '
              'self.sockets[sid].queue.accepted[len(old(self.sockets[sid].queue.accepted))]'
              '.data == data)', props=['C03'])
    c.modifies('self.sockets', 'Socket.closing', 'Socket.closed', 'Queue.items', 'Queue.unf',
               'Queue.taken', 'Queue.accepted', 'Queue.put_none', 'Queue.taken_none',
               'ghost.events', 'ghost.hresults', 'ghost.now', 'ghost.spawned')
    for nm in ('get_session', 'save_session'):
        c = REG.contract('%s.%s.%s' % (mod, cls, nm), props=['C16'])
        c.param('self', Ref(cls)).param('sid', STR)
        if nm == 'save_session':
            c.param('session', ANY)
        else:
            c.returns(ANY)
        c.raises('KeyError', DEAD, label='dead-id-raises', ensures=[
            ('no-other-session-touched', "unchanged('BaseSocket.session') and "
             "(self.sockets == old(self.sockets) or "
             "self.sockets == dict_del(old(self.sockets), sid))")], props=['C16'])
        if nm == 'get_session':
            c.ensures('own-session-data', 'result == self.sockets[sid].session')
            c.ensures('nothing-changes', "unchanged('BaseSocket.session') and "
                      "self.sockets == old(self.sockets)")
            c.modifies('self.sockets')
        else:
            c.ensures('stored-on-that-session-only', 'self.sockets[sid].session == session and '
                      'self.sockets == old(self.sockets)')
            c.modifies('self.sockets', 'self.sockets[sid].session')

# ------------------------------------------------------------------------------- handle_request
from .c_base_server import CFG_OK  # noqa: E402
NOTHING = ("self.sockets == old(self.sockets) and events == old(events) and hresults == old(hresults) and "
           "spawned == old(spawned) and csprng == old(csprng) and received == old(received) and "
           "unchanged('Queue.items', 'Queue.taken', 'Queue.accepted', 'Queue.unf', "
           "'Queue.put_none', 'Queue.taken_none', 'BaseSocket.closing', "
           "'BaseSocket.closed', 'BaseSocket.upgraded', 'BaseSocket.upgrading', "
           "'BaseSocket.connected', 'Packet.encode_cache') and "
           "self.sequence_number == old(self.sequence_number)")
NOTHING_BUT_REAPING = NOTHING.replace(
    "self.sockets == old(self.sockets) and",
    "(self.sockets == old(self.sockets) or (q_sid(environ) is not None and "
    "self.sockets == dict_del(old(self.sockets), q_sid(environ)))) and")
REG.contract('async_server.AsyncServer._make_response').inline = True
for _cls, _mod in (('Server', 'server'), ('AsyncServer', 'async_server')):
    c = REG.contract('%s.%s.handle_request' % (_mod, _cls), props=['C12', 'C13', 'C15', 'C19', 'C03', 'C04'])
    c.shards = 1        # cut points make the exploration linear; path sharding is not needed
    if _cls == 'Server':
        c.param('self', Ref('Server')).param('environ', ENV).param('start_response', SR)
        c.returns_cases(('http-response', 'True', List(BYTES)),
                        ('websocket-session', 'is_websocket_request(self, environ)', QI))
    else:
        # handle_request(*args, **kwargs): the framework's request is turned into a WSGI-style
        # environ by the async driver's translate_request (driver glue, abstract region); the
        # response is built by the driver's make_response, recorded in the same ghost log as a
        # WSGI start_response call
        c.param('self', Ref('AsyncServer'))
        c.param('args', Opaque('DriverArgs')).param('kwargs', Opaque('DriverArgs'))
        c.env = {'environ': ENV}
        c.abstract('if asyncio.iscoroutinefunction(translate_request):',
                   'environ = translate_request(*args, **kwargs): the async driver maps its request '
                   'object to the environ dict assumed here')
        c.returns_cases(('http-response', 'True', Opaque('HttpResponse')),
                        ('websocket-session', 'is_websocket_request(self, environ)', QI),
                        ('websocket-session-over', 'is_websocket_request(self, environ)', NONE))
    c.requires(SERVER_WF, 'server-wf')
    c.requires(TABLE_WF, 'sockets-wf')
    c.requires(CFG_OK, 'cors-config-shape')
    c.requires("'REQUEST_METHOD' in environ", 'gateway-environ')
    c.requires("'connect' in self.handlers and handler_accepts(self.handlers['connect'], 2)",
               'connect-handler-registered')
    c.requires("all_values(self.sockets, lambda s: not s.upgrading)", 'no-upgrade-in-progress')
    c.requires("'wsgi.input' in environ and ('CONTENT_LENGTH' not in environ or "
               "(int_ok(environ['CONTENT_LENGTH']) and int(environ['CONTENT_LENGTH']) >= 0))",
               'gateway-body')
    c.requires('len(sr_log) == 0', 'fresh-request')
    SECOND_UPGRADE = ("not origin_refused(self.cors_allowed_origins, environ) and "
                      "refusal(self, environ) == 0 and environ['REQUEST_METHOD'] == 'GET' and "
                      "q_sid(environ) is not None and "
                      "is_upgrade_request(environ, ['websocket']) and "
                      "self.sockets[q_sid(environ)].upgraded")
    c.raises('OSError', SECOND_UPGRADE, label='second-upgrade-refused-undisturbed',
             ensures=[('established-websocket-undisturbed',
                       "self.sockets == old(self.sockets) and events == old(events) and "
                       "hresults == old(hresults) and received == old(received) and "
                       "unchanged('BaseSocket.closing', 'BaseSocket.closed', 'BaseSocket.upgraded', "
                       "'BaseSocket.upgrading', 'BaseSocket.connected', 'Queue.taken') and "
                       "len(sr_log) == 0")],
             props=['C06'])
    c.may_raise('Exception', 'is_websocket_request(self, environ)', label='websocket-driver-error',
                props=['C15'])
    c.ensures('origin-gate-first', "implies(origin_refused(self.cors_allowed_origins, environ), "
              "sr_log == ['400 BAD REQUEST'] and " + NOTHING + ")", props=['C13'])
    c.ensures('refused-400-has-no-effect', "implies(not origin_refused(self.cors_allowed_origins, "
              "environ) and old(refusal(self, environ)) == 400, sr_log == ['400 BAD REQUEST'] and " +
              NOTHING_BUT_REAPING + ")", props=['C12'])
    c.ensures('refused-405-has-no-effect', "implies(not origin_refused(self.cors_allowed_origins, "
              "environ) and old(refusal(self, environ)) == 405, sr_log == ['405 METHOD NOT FOUND'] and " +
              NOTHING + ")", props=['C12'])
    c.ensures('one-well-formed-response', "implies(not old(is_websocket_request(self, environ)), "
              "len(sr_log) == 1 and sr_log[0] in ('200 OK', '400 BAD REQUEST', '401 UNAUTHORIZED', "
              "'405 METHOD NOT FOUND'))", props=['C15'])
    if _cls == 'Server':
        c.ensures('body-is-one-chunk', "implies(not old(is_websocket_request(self, environ)), "
                  "len(result) == 1)", props=['C15'])
    c.modifies('self.sockets', 'self.sequence_number', 'self.start_service_task',
               'self.service_task_handle', 'Socket.closing', 'Socket.closed', 'Socket.connected',
               'Socket.upgraded', 'Socket.upgrading', 'Queue.items', 'Queue.unf', 'Queue.taken',
               'Queue.accepted', 'Queue.put_none', 'Queue.taken_none', 'Packet.encode_cache',
               'ghost.csprng', 'ghost.events', 'ghost.hresults', 'ghost.spawned', 'ghost.now', 'ghost.ws_log',
               'ghost.received', 'ghost.reads', 'ghost.bodies', 'ghost.sr_log', 'ghost.sr_headers')
    _FINAL = ('cors_headers = self._cors_headers(environ)' if _cls == 'Server' else
              'return await self._make_response(r, environ)')
    c.ghost_before('if self.http_compression and', 'r0', 'r')
    METHODS = "('gzip', 'deflate')"
    c.loop(1, index='i', invariants=[
        ('untouched-so-far', "r['status'] == r0['status'] and r['headers'] == r0['headers'] and "
         "r['response'] == r0['response']"),
        ('none-of-the-earlier-codings-is-supported',
         'forall(lambda k: not supported(encodings[k]), 0, i)')],
        modifies=['r'], props=['C19'])
    DECLARED = ("exists(lambda i: supported(offered(environ)[i]) and "
                "forall(lambda k: not supported(offered(environ)[k]), 0, i) and "
                "r['headers'] == r0['headers'] + [('Content-Encoding', offered(environ)[i])] and "
                "r['response'] == compressed(offered(environ)[i], r0['response']), "
                "0, len(offered(environ)))")
    ELIGIBLE = "self.http_compression and len(r0['response']) >= self.compression_threshold"
    c.check_before(_FINAL, 'status-kept',
                   "r['status'] == r0['status']")
    c.check_before(_FINAL,
                   'undeclared-body-is-never-compressed',
                   "implies(r['headers'] == r0['headers'], r['response'] == r0['response'])",
                   props=['C19'])
    c.check_before(_FINAL,
                   'declared-only-if-enabled-large-enough-and-offered',
                   "r['headers'] == r0['headers'] or (" + ELIGIBLE + " and " + DECLARED + ")",
                   props=['C19'])
    c.check_before(_FINAL,
                   'first-supported-offered-coding-is-used',
                   "implies(" + ELIGIBLE + " and exists(lambda i: supported(offered(environ)[i]), 0, "
                   "len(offered(environ))), r['headers'] != r0['headers'])", props=['C19'])
    NOT_GATED = 'not origin_refused(self.cors_allowed_origins, environ)'
    c.cut('if jsonp and jsonp_index is None:', [
        ('gate-passed', NOT_GATED),
        ('nothing-yet', 'len(sr_log) == 0 and ' + NOTHING),
        ('method', "method == environ['REQUEST_METHOD']"),
        ('query', 'query == q_of(environ)'),
        ('transport', 'transport == q_transport(environ) and transport in self.transports'),
        ('sid', 'sid == q_sid(environ)'),
        ('version', "implies(sid is None, query.get('EIO') == ['4'])"),
        ('jsonp-flag', "jsonp == ('j' in query)"),
        ('jsonp-index', "implies(jsonp and jsonp_index is None, jsonp_bad(environ)) and "
         "implies(jsonp_index is not None, jsonp and not jsonp_bad(environ))"),
    ])
    c.cut('if not isinstance(r, dict):', [
        ('no-response-yet', 'implies(isinstance(r, dict), len(sr_log) == 0)'),
        ('refused-400', 'implies(' + NOT_GATED + " and old(refusal(self, environ)) == 400, "
         "r['status'] == '400 BAD REQUEST' and " + NOTHING_BUT_REAPING + ')'),
        ('refused-405', 'implies(' + NOT_GATED + " and old(refusal(self, environ)) == 405, "
         "r['status'] == '405 METHOD NOT FOUND' and " + NOTHING + ')'),
        ('gate-passed', NOT_GATED),
        ('second-upgrade-never-answered', 'not old(' + SECOND_UPGRADE + ')'),
        ('non-dict-only-when-admitted', 'isinstance(r, dict) or old(refusal(self, environ)) == 0'),
        ('non-dict-only-for-websocket', 'isinstance(r, dict) or old(is_websocket_request(self, environ))'),
        ('status-line', "implies(isinstance(r, dict), r['status'] in ('200 OK', '400 BAD REQUEST', "
         "'401 UNAUTHORIZED', '405 METHOD NOT FOUND'))"),
    ])

# -------------------------------------------------------------------------- _service_task (C07)
# The client monitor: one sweep visits every session once, calls check_ping_timeout on those not
# closing, and between visits waits ping_timeout / (number of sessions at sweep start): the sleeps
# requested during one sweep add up to at most ping_timeout, which is what the BOUND lemma of C07
# relies on (a dead session is examined within one sweep period of its deadline).
REG.contract('base_server.BaseServer.create_event').inline = True
REG.contract('async_server.AsyncServer.create_event').inline = True
for _cls, _mod in (('Server', 'server'), ('AsyncServer', 'async_server')):
    c = REG.contract('%s.%s._service_task' % (_mod, _cls), props=['C07'])
    c.param('self', Ref(_cls))
    c.requires(SERVER_WF, 'server-wf')
    c.requires(TABLE_WF, 'sockets-wf')
    SVC_MOD = ['Socket.closing', 'Socket.closed', 'Queue.items', 'Queue.unf', 'Queue.taken',
               'Queue.accepted', 'Queue.put_none', 'Queue.taken_none', 'ghost.events',
               'ghost.hresults', 'ghost.now', 'ghost.spawned', 'ghost.slept']
    c.modifies('self.sockets', 'self.service_task_event', *SVC_MOD)
    c.loop(0, invariants=[('sockets-wf', TABLE_WF), ('event-created', 'self.service_task_event is not None')],
           modifies=['self.sockets', 's', 'sleep_interval'] + SVC_MOD)
    c.ghost_before('for s in self.sockets.copy().values():', 'slept0', 'slept')
    c.ghost_before('for s in self.sockets.copy().values():', 'n0', 'len(self.sockets)')
    c.ghost_before('for s in self.sockets.copy().values():', 'snap', 'self.sockets')
    c.check_before('for s in self.sockets.copy().values():', 'sweep-sleeps-add-up-to-ping-timeout',
                   'n0 > 0 and n0 * sleep_interval <= self.ping_timeout', props=['C07'])
    # C16: the monitor removes a session from the table only once it is closed
    c.check_before('del self.sockets[s.sid]', 'only-closed-sessions-are-reaped', 's.closed',
                   props=['C16', 'C07'])
    # C16 / C07: after its visit a session whose heartbeat deadline has passed is closed or closing
    # (no state of the session - upgrading, upgraded, connected or not - exempts it from the check)
    c.check_before('if self.service_task_event.wait(timeout=sleep_interval):' if _cls == 'Server'
                   else 'try: await asyncio.wait_for(self.service_task_event.wait(), '
                   'timeout=sleep_interval)',
                   'a-visited-session-past-its-deadline-is-closing',
                   'implies(ping_expired(s, now), s.closed or s.closing)', props=['C16', 'C07'])
    c.loop(1, index='j', invariants=[
        ('sockets-wf', TABLE_WF),
        ('snapshot-wf', 'all_values(snap, lambda s: sock_wf(s))'),
        ('event-created', 'self.service_task_event is not None'),
        ('slept-so-far', 'slept - slept0 <= j * sleep_interval and sleep_interval >= 0'),
        ('one-sweep-sleeps-at-most-ping-timeout', 'j <= n0 and n0 * sleep_interval <= self.ping_timeout '
         'and slept - slept0 <= self.ping_timeout')],
        modifies=['self.sockets'] + SVC_MOD)
