"""Contracts for the session table and the application-facing API (C16, C03, C12, C15)."""
from pyvc.contract import REG
from pyvc.values import *  # noqa
from .schemas import ENV, HEADERS, RESP
from .c_socket import SOCK_WF, QUIET

SRV = [Ref('Server'), Ref('AsyncServer'), Ref('BaseServer')]


def sock_of(typing):
    return {'Server': Ref('Socket'), 'AsyncServer': Ref('AsyncSocket')}.get(
        typing['self'].args[0], Ref('BaseSocket'))


DEAD = 'sid not in self.sockets or self.sockets[sid].closed'

# ---------------------------------------------------------------------------------- _get_socket
c = REG.contract('base_server.BaseServer._get_socket', props=['C12', 'C16', 'C03'])
c.param('self', SRV).param('sid', STR)
c.returns(sock_of)
c.raises('KeyError', DEAD, label='dead-id-raises', ensures=[
    ('closed-session-reaped', 'implies(sid in old(self.sockets), '
     'self.sockets == dict_del(old(self.sockets), sid))'),
    ('unknown-id-no-effect', 'implies(sid not in old(self.sockets), '
     'self.sockets == old(self.sockets))')], props=['C16'])
c.ensures('live-socket', 'result == self.sockets[sid] and not result.closed')
c.ensures('table-unchanged', 'self.sockets == old(self.sockets)')
c.modifies('self.sockets')

c = REG.contract('base_server.BaseServer.transport', props=['C12', 'C16'])
c.param('self', SRV).param('sid', STR)
c.returns(STR)
c.raises('KeyError', DEAD, label='dead-id-raises', ensures=[
    ('others-untouched', 'self.sockets == old(self.sockets) or '
     'self.sockets == dict_del(old(self.sockets), sid)')], props=['C16'])
c.ensures('names-actual-transport', "result == ('websocket' if self.sockets[sid].upgraded "
          "else 'polling')")
c.ensures('table-unchanged', 'self.sockets == old(self.sockets)')
c.modifies('self.sockets')

# ------------------------------------------------------------------------------------ _upgrades
c = REG.contract('base_server.BaseServer._upgrades', props=['C11'])
c.param('self', SRV).param('sid', STR).param('transport', STR)
c.returns(List(STR))
c.requires('sid in self.sockets and not self.sockets[sid].closed', 'live-session')
c.ensures('websocket-only-when-an-upgrade-would-be-accepted',
          "result == (['websocket'] if (self.allow_upgrades and 'websocket' in self.transports "
          "and self._async['websocket'] is not None and not self.sockets[sid].upgraded and "
          "transport != 'websocket') else [])")
c.ensures('table-unchanged', 'self.sockets == old(self.sockets)')
c.modifies('self.sockets')

# ------------------------------------------------------------------------- send / send_packet
for cls, mod in (('Server', 'server'), ('AsyncServer', 'async_server')):
    c = REG.contract('%s.%s.send_packet' % (mod, cls), props=['C03', 'C15', 'C16'])
    c.param('self', Ref(cls)).param('sid', STR).param('pkt', Ref('Packet'))
    c.requires('implies(sid in self.sockets, sock_wf(self.sockets[sid]))', 'socket-wf')
    c.requires('0 <= pkt.packet_type and pkt.packet_type <= 6', 'packet-type')
    c.ensures('dead-id-is-silent-noop', 'implies(old(' + DEAD + '), events == old(events) and '
              'spawned == old(spawned) and (self.sockets == old(self.sockets) or '
              'self.sockets == dict_del(old(self.sockets), sid)))', props=['C16'])
    c.ensures('enqueued-on-that-session-once', 'implies(not old(' + DEAD + ') and '
              'not old(ping_expired(self.sockets[sid], now)), '
              'self.sockets[sid].queue.accepted == old(self.sockets[sid].queue.accepted) + [pkt] '
              'and self.sockets == old(self.sockets))', props=['C03'])
    c.modifies('self.sockets', 'Socket.closing', 'Socket.closed', 'Queue.items', 'Queue.unf',
               'Queue.taken', 'Queue.accepted', 'Queue.put_none', 'Queue.taken_none',
               'ghost.events', 'ghost.now', 'ghost.spawned')

# ------------------------------------------------------------------------------ _handle_connect
REG.contract('base_socket.BaseSocket.__init__').inline = True
from .c_socket import QI, WS_MOD, SR  # noqa: E402

NEW_SID = 'sid_of(csprng[len(old(csprng))], old(self.sequence_number))'
SERVER_WF = ('self.ping_timeout >= 0 and self.ping_interval >= 0 and '
             'self.ping_interval_grace_period >= 0 and self.max_http_buffer_size >= 0 and '
             '0 <= self.sequence_number and self.sequence_number < 16777216 and '
             '(self.cookie is None or isinstance(self.cookie, str))')
c = REG.contract('server.Server._handle_connect', props=['C05', 'C11', 'C16', 'C06'])
c.shards = 8
c.param('self', Ref('Server')).param('environ', ENV).param('start_response', SR)
c.param('transport', STR).param('jsonp_index', [NONE, INT])
c.returns_cases(('http-response', "transport != 'websocket' or "
                 "self._async['websocket'] is None or True", RESP),
                ('websocket-session', "transport == 'websocket'", QI))
c.requires(SERVER_WF, 'server-wf')
c.requires("transport == 'polling' or transport == 'websocket'", 'transport')
c.requires("'connect' in self.handlers and handler_accepts(self.handlers['connect'], 2)",
           'connect-handler-registered')
c.may_raise('Exception', "transport == 'websocket'", label='websocket-driver-error')
c.ensures('id-issued', 'len(csprng) == len(old(csprng)) + 1', props=['C11', 'C17'])
c.ensures('only-the-new-id-is-touched', 'dict_del(self.sockets, ' + NEW_SID + ') == '
          'dict_del(old(self.sockets), ' + NEW_SID + ')', props=['C11', 'C16'])
c.ensures('connect-handler-first-and-once',
          "events[0:len(old(events))] == old(events) and len(events) > len(old(events)) and "
          "ev_handler(events[len(old(events))]) == self.handlers['connect'] and "
          "ev_arg0(events[len(old(events))]) == " + NEW_SID, props=['C05', 'C11'])
NEWQ = 'self.sockets[' + NEW_SID + '].queue'
c.ensures('rejected-id-never-addressable', "implies(transport == 'polling' and "
          "result['status'] == '401 UNAUTHORIZED', " + NEW_SID + " not in self.sockets)",
          props=['C11', 'C16'])
c.ensures('status-is-200-401-or-400', "implies(transport == 'polling', result['status'] in "
          "('200 OK', '401 UNAUTHORIZED', '400 BAD REQUEST'))", props=['C11', 'C15'])
c.ensures('accepted-session-created', "implies(transport == 'polling' and "
          "result['status'] == '200 OK', " + NEW_SID + " in self.sockets and "
          "self.sockets[" + NEW_SID + "].connected and self.sockets[" + NEW_SID + "].sid == " +
          NEW_SID + " and not self.sockets[" + NEW_SID + "].upgraded)", props=['C11'])
c.ensures('open-packet-first-and-reflects-configuration',
          "implies(transport == 'polling' and result['status'] == '200 OK', "
          "len(" + NEWQ + ".taken) >= 1 and " + NEWQ + ".taken[0].packet_type == 0 and " +
          NEWQ + ".taken[0].data == open_info(self, " + NEW_SID + ", transport))",
          props=['C11'])
c.ensures('response-carries-the-taken-packets',
          "implies(transport == 'polling' and result['status'] == '200 OK' and "
          "jsonp_index is None, result['response'] == payload_text(" + NEWQ + ".taken, "
          "len(" + NEWQ + ".taken)).encode('utf-8'))", props=['C11', 'C03'])
c.ensures('cookie-exactly-when-configured',
          "implies(transport == 'polling' and result['status'] == '200 OK', "
          "result['headers'] == ([('Set-Cookie', cookie_value(" + NEW_SID + ", "
          "{'name': self.cookie, 'path': '/', 'SameSite': 'Lax'}))] if self.cookie else []) + "
          "[('Content-Type', 'text/plain; charset=UTF-8')])", props=['C11'])
c.ensures('polling-accept-or-reject-adds-no-other-event', "implies(transport == 'polling', "
          "len(events) == len(old(events)) + 1)", props=['C05'])
c.modifies('self.sockets', 'self.sequence_number', 'self.start_service_task',
           'self.service_task_handle', 'ghost.csprng', 'ghost.events', 'ghost.spawned',
           'ghost.now', 'ghost.ws_log', 'ghost.received', 'ghost.sr_log', 'ghost.sr_headers',
           'Packet.encode_cache')      # the new socket, its queue and packets are fresh objects
