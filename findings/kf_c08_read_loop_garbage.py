"""Native witness for KF-C08-read-loop-garbage-escapes: the polling read loop of the real client only
expects ValueError from decoding the server's reply. A reply body 'd=' (JSONP-style prefix with an
empty value) makes Payload.decode raise KeyError, a deeply nested JSON message raises RecursionError:
the read loop thread dies, no disconnect event fires and the client stays 'connected'.
Run: PYTHONPATH=/repo/src /venv/bin/python findings/kf_c08_read_loop_garbage.py  (exit 1 = reproduced)"""
import sys
import types
import engineio

bad = 0
for name, body in (('d=', b'd='), ('deep-json', b'4' + b'[' * 100000)):
    c = engineio.Client()
    events = []
    c.on('disconnect', lambda reason=None: events.append(reason))
    c.state = 'connected'
    c.current_transport = 'polling'
    c.base_url = 'http://x/engine.io/?transport=polling&EIO=4&sid=abc'
    c.ping_interval, c.ping_timeout = 25.0, 20.0
    c.queue = c.create_queue()
    c.write_loop_task = types.SimpleNamespace(join=lambda: None)
    c.read_loop_task = object()
    c._send_request = types.MethodType(
        lambda self, *a, **k: types.SimpleNamespace(status_code=200, content=body), c)
    try:
        c._read_loop_polling()
        out = 'returned'
    except BaseException as e:      # noqa
        out = 'escaped with %s' % type(e).__name__
    print('%-10s read loop %s; state=%r disconnect events=%r' % (name, out, c.state, events))
    if c.state == 'connected' or len(events) != 1:
        bad += 1
sys.exit(1 if bad else 0)
