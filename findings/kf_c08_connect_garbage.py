"""Native witness for KF-C08-connect-garbage-escapes: Client._connect_polling turns a refused /
non-2xx / undecodable / non-OPEN reply into ConnectionError, but several malformed replies escape
as other exceptions (the property says connect() either raises ConnectionError or connects).
Run: PYTHONPATH=/repo/src /venv/bin/python findings/kf_c08_connect_garbage.py   (exit 1 = reproduced)"""
import sys
import types
import engineio
from engineio import exceptions
import engineio.client

if engineio.client.requests is None:        # the HTTP library is not installed in this sandbox; the
    engineio.client.requests = object()     # request function is stubbed below anyway

cases = [('empty body', b''),
         ('OPEN whose payload is a string', b'0"x"'),
         ('OPEN without sid', b'0{"upgrades":[],"pingInterval":1,"pingTimeout":1}'),
         ('OPEN with non-numeric pingInterval',
          b'0{"sid":"s","upgrades":[],"pingInterval":"x","pingTimeout":1}'),
         ('body d=', b'd='),
         ('deeply nested JSON', b'0' + b'[' * 100000)]
bad = 0
for name, body in cases:
    c = engineio.Client()
    c._send_request = types.MethodType(
        lambda self, *a, **k: types.SimpleNamespace(status_code=200, content=body), c)
    try:
        c.connect('http://x')
        out = 'connected'
    except exceptions.ConnectionError as e:
        out = 'ConnectionError'
    except BaseException as e:      # noqa
        out = 'ESCAPED %s' % type(e).__name__
        bad += 1
    print('%-38s -> %-24s state=%r sid=%r' % (name, out, c.state, c.sid))
    try:
        c.disconnect(abort=True)
    except Exception:
        pass
sys.exit(1 if bad else 0)
