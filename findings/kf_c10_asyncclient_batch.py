"""Native witness for KF-C10-client-batch-unbounded-async: a real engineio.AsyncClient write loop
talking to a real engineio.Server through an in-process WSGI call (only the HTTP library call is
replaced). Run: PYTHONPATH=/repo/src /venv/bin/python findings/kf_c10_asyncclient_batch.py
(exit 1 = reproduced)"""
import asyncio
import io
import sys
import types
import engineio
from engineio import packet

srv = engineio.Server(async_mode='threading', monitor_clients=False)
got = []
srv.on('message', lambda sid, data: got.append(data))


def wsgi(method, query, body=b''):
    out = {}
    env = {'REQUEST_METHOD': method, 'QUERY_STRING': query, 'PATH_INFO': '/engine.io/',
           'CONTENT_LENGTH': str(len(body)), 'wsgi.input': io.BytesIO(body),
           'wsgi.url_scheme': 'http', 'HTTP_HOST': 'x'}
    r = srv.handle_request(env, lambda s, h: out.update(status=s))
    return out['status'], b''.join(r)


async def main():
    status, body = wsgi('GET', 'transport=polling&EIO=4')
    sid = packet.Packet(encoded_packet=body.decode()).data['sid']
    c = engineio.AsyncClient()
    c.state = 'connected'
    c.current_transport = 'polling'
    c.base_url = 'http://x/engine.io/?transport=polling&EIO=4&sid=' + sid
    c.ping_interval, c.ping_timeout = 25.0, 20.0
    c.queue = c.create_queue()
    N = 17
    for i in range(N):
        await c.send('m%d' % i)
    await c.queue.put(None)

    async def send_request(self, method, url, headers=None, body=None, timeout=None):
        st, _ = wsgi(method, url.split('?', 1)[1], body.encode() if isinstance(body, str) else body)
        print('POST with %d packets -> %s' % (body.count('\x1e') + 1, st))
        return types.SimpleNamespace(status=int(st.split()[0]))

    c._send_request = types.MethodType(send_request, c)
    await c._write_loop()
    print('server received %d of %d messages' % (len(got), N))
    return 1 if len(got) != N else 0

sys.exit(asyncio.run(main()))
