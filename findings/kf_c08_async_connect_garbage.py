"""Native witness for KF-C08-connect-garbage-escapes-*-async (see kf_c08_connect_garbage.py): the
asyncio client's polling handshake lets malformed replies escape as exceptions other than
ConnectionError. Run: PYTHONPATH=/repo/src /venv/bin/python findings/kf_c08_async_connect_garbage.py"""
import asyncio
import sys
import types
import engineio
import engineio.async_client
from engineio import exceptions

if engineio.async_client.aiohttp is None:       # the HTTP library call is stubbed below anyway
    engineio.async_client.aiohttp = types.SimpleNamespace(ClientError=Exception)

cases = [('empty body', b''),
         ('OPEN whose payload is a string', b'0"x"'),
         ('OPEN without sid', b'0{"upgrades":[],"pingInterval":1,"pingTimeout":1}'),
         ('OPEN with non-numeric pingInterval',
          b'0{"sid":"s","upgrades":[],"pingInterval":"x","pingTimeout":1}'),
         ('body d=', b'd='),
         ('deeply nested JSON', b'0' + b'[' * 100000)]


async def main():
    bad = 0
    for name, body in cases:
        c = engineio.AsyncClient()

        async def read(body=body):
            return body

        async def send_request(self, *a, **k):
            return types.SimpleNamespace(status=200, read=read)
        c._send_request = types.MethodType(send_request, c)
        try:
            await c.connect('http://x')
            out = 'connected'
        except exceptions.ConnectionError:
            out = 'ConnectionError'
        except BaseException as e:      # noqa
            out = 'ESCAPED %s' % type(e).__name__
            bad += 1
        print('%-38s -> %-24s state=%r sid=%r' % (name, out, c.state, c.sid))
    return 1 if bad else 0

sys.exit(asyncio.run(main()))
