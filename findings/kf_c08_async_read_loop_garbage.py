"""Native witness for KF-C08-read-loop-garbage-escapes-*-async: the asyncio client's polling read
loop only expects ValueError from decoding the server's reply (see kf_c08_read_loop_garbage.py).
Run: PYTHONPATH=/repo/src /venv/bin/python findings/kf_c08_async_read_loop_garbage.py (exit 1 = reproduced)"""
import asyncio
import sys
import types
import engineio


async def one(name, body):
    c = engineio.AsyncClient()
    events = []
    c.on('disconnect', lambda reason=None: events.append(reason))
    c.state = 'connected'
    c.current_transport = 'polling'
    c.base_url = 'http://x/engine.io/?transport=polling&EIO=4&sid=abc'
    c.ping_interval, c.ping_timeout = 25.0, 20.0
    c.queue = c.create_queue()
    done = asyncio.get_running_loop().create_future()
    done.set_result(None)
    c.write_loop_task = done
    c.read_loop_task = object()

    async def read():
        return body

    async def send_request(self, *a, **k):
        return types.SimpleNamespace(status=200, read=read)
    c._send_request = types.MethodType(send_request, c)
    try:
        await c._read_loop_polling()
        out = 'returned'
    except BaseException as e:      # noqa
        out = 'escaped with %s' % type(e).__name__
    print('%-10s read loop %s; state=%r disconnect events=%r' % (name, out, c.state, events))
    return c.state == 'connected' or len(events) != 1


async def main():
    bad = 0
    for name, body in (('d=', b'd='), ('deep-json', b'4' + b'[' * 100000)):
        bad += await one(name, body)
    return 1 if bad else 0

sys.exit(asyncio.run(main()))
