#!/usr/bin/env python3
"""Runs the repository's pinned test suite (guard OFF) and compares with BASELINE.json."""
import json, subprocess, sys, tempfile, os, xml.etree.ElementTree as ET
base = json.load(open('/root/.vp/BASELINE.json'))
with tempfile.TemporaryDirectory() as d:
    x = os.path.join(d, 'j.xml')
    env = dict(os.environ)
    env.pop('PYTHON_ENGINEIO_VERIF', None)
    subprocess.run(['/venv/bin/python', '-m', 'pytest', '-ra', '-q', '-p', 'no:cacheprovider',
                    '--timeout=900', '--continue-on-collection-errors', '--junitxml=' + x],
                   cwd=sys.argv[1] if len(sys.argv) > 1 else '/repo', env=env,
                   stdout=subprocess.DEVNULL, stderr=subprocess.DEVNULL)
    passed = set()
    for tc in ET.parse(x).getroot().iter('testcase'):
        if not any(ch.tag in ('failure', 'error', 'skipped') for ch in tc):
            passed.add('%s::%s' % (tc.get('classname'), tc.get('name')))
missing = [t for t in base['stable_pass'] if t not in passed]
print('baseline stable_pass: %d, passing now: %d, missing: %d' % (len(base['stable_pass']), len(passed), len(missing)))
for m in missing[:20]:
    print('  MISSING', m)
sys.exit(1 if missing else 0)
