#!/usr/bin/env python3
"""Generates MANIFEST.json from props/*.py (claimed) and the fixed property list."""
import importlib, json, os, sys
ROOT = os.path.dirname(os.path.dirname(os.path.abspath(__file__)))
sys.path.insert(0, ROOT)
props = [json.loads(l) for l in open(os.path.join(ROOT, 'properties.jsonl'))]
checks, na = [], []
for p in props:
    pid = p['id']
    path = os.path.join(ROOT, 'props', pid + '.py')
    src = open(path).read() if os.path.exists(path) else ''
    ns = {}
    if src:
        exec(compile(src, path, 'exec'), ns)
    if src and ns.get('CLAIMED', True):
        checks.append({
            'property_id': pid,
            'quick_cmd': './check %s --tier quick' % pid,
            'thorough_cmd': './check %s --tier thorough' % pid,
            'evidence_file': 'evidence/%s.json' % pid,
            'replay_cmd_template': './check --replay {path}',
            'engine': 'pyvc',
            'level_claimed': {'category': 'proof', 'text': ns.get('LEVEL_TEXT', ''),
                              'design_ref': 'DESIGN.md section 4/%s' % pid},
            'level_note': ns.get('LEVEL_NOTE', ''),
            'technique': 'contract-based deductive verification: sidecar contracts on the real '
                         'functions, VCs generated from their AST on every run, discharged by '
                         'z3/cvc5',
        })
    else:
        na.append({'property_id': pid, 'reason': ns.get('NA_REASON',
                   'functions not yet brought under contract in this build; see DESIGN.md')})
m = {
    'version': 1,
    'setup_cmd': 'python3-vt -m pyvc.doctor',
    'hooks': {'guard': 'PYTHON_ENGINEIO_VERIF', 'enable': 'no source hooks: all instrumentation lives in sidecar contracts and replay stubs',
              'baseline_off_cmd': 'cd /repo && /venv/bin/python -m pytest -ra -q -p no:cacheprovider --timeout=900 --continue-on-collection-errors',
              'source_commits': [], 'add_only': True},
    'engines': [{'name': 'pyvc', 'path': 'pyvc/', 'serves_properties': [c['property_id'] for c in checks],
                 'kind_free_text': 'self-built verification-condition generator (path-splitting symbolic executor over the Python AST of the real functions) + z3 5.1 / cvc5 1.0.3'}],
    'checks': checks,
    'not_applicable': na,
    'notes': 'exit codes: 0 all obligations discharged; 1 violation (refuted obligation); 2 undecided; 3 checker failure',
}
json.dump(m, open(os.path.join(ROOT, 'MANIFEST.json'), 'w'), indent=1)
print('claimed:', [c['property_id'] for c in checks])
