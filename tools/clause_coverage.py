#!/usr/bin/env python3-vt
"""Every postcondition / raises clause of every contract must be checked by the quick tier of at
least one property: a clause is checked under property P only if it is tagged with P and the
function is in P's function list (structural obligations - preconditions at call sites, frames,
invariants, program-point assertions - are always checked). Exit 1 lists uncovered clauses."""
import glob
import importlib
import os
import sys
ROOT = os.path.dirname(os.path.dirname(os.path.abspath(__file__)))
sys.path.insert(0, ROOT)
from pyvc.contract import REG  # noqa: E402
import contracts  # noqa: E402,F401

funcs = {}
for f in sorted(glob.glob(os.path.join(ROOT, 'props', 'C*.py'))):
    pid = os.path.basename(f)[:-3]
    funcs[pid] = set(importlib.import_module('props.' + pid).FUNCTIONS)
unc = []
for q, c in REG.contracts.items():
    if c.trusted or c.inline:
        continue
    listed = [p for p, fs in funcs.items() if q in fs]
    if not listed:
        unc.append((q, 'function is in no property list'))
        continue
    cls = [(cl.label, cl.props) for cl in c.ensures_]
    for rc in c.raises_:
        cls.append(('raises:' + rc.label, rc.props))
        cls += [('raises-post:%s:%s' % (rc.label, e.label), e.props) for e in rc.ensures]
    unc += [(q, lab, props, listed) for lab, props in cls if not any(p in listed for p in props)]
for u in unc:
    print('UNCOVERED', u)
print('%d uncovered clause(s)' % len(unc))
sys.exit(1 if unc else 0)
