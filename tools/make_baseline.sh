#!/bin/sh
# Records, for the current (unchanged) tree, which obligations every claimed check discharges.
cd "$(dirname "$0")/.."
rm -f baseline_obligations.json
for P in $(python3 -c "import json; print(' '.join(c['property_id'] for c in json.load(open('MANIFEST.json'))['checks']))"); do
  PYVC_WRITE_BASELINE=$PWD/baseline_obligations.json ./check $P --jobs 14 | tail -1
done
python3 -c "import json; b=json.load(open('baseline_obligations.json')); print(len(b['discharged']), 'obligation keys;', len(b['module_sha']), 'modules')"
