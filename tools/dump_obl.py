#!/usr/bin/env python3-vt
"""Debug helper: dump one obligation of a function as SMT-LIB text and try the solvers.
usage: python3-vt tools/dump_obl.py <qualname|lemma:NAME> <substring of obligation id> [out.smt2]"""
import sys, os, time
sys.path.insert(0, os.path.dirname(os.path.dirname(os.path.abspath(__file__))))
from pyvc import core, solve
from pyvc.contract import REG
import contracts, z3
eng = core.Engine(); eng.known = []
q = sys.argv[1]
if q.startswith('lemma:'):
    obls = eng.lemma_obligations([l for l in REG.lemmas if l.name == q[6:]][0])
else:
    obls, n = eng.verify_function(q)
out = sys.argv[3] if len(sys.argv) > 3 else '/tmp/o.smt2'
for o in obls:
    if sys.argv[2] in o.oid:
        open(out, 'w').write(solve.to_smt2(o.premises, o.goal))
        print(o.oid, 'premises:', len(o.premises))
        if os.environ.get('SHOW'):
            for p in o.premises: print('  P:', str(p)[:300])
            print('  G:', str(o.goal)[:2000])
        t=time.time(); r = solve.solve_quick(o, 5000); print({k: v for k, v in r.items() if k not in ('smt2','model')}, time.time()-t)
        break
else:
    print('no such obligation; have:'); [print('  ', o.oid) for o in obls]
