#!/bin/sh
# usage: tools/seedtest.sh <seed dir with patch.diff, demo.py> <PROP> [more PROPs]
# Confirms a seeded change in a scratch worktree (tests still pass, demo fails with / passes
# without the change) and runs the named checks against the changed sources.
set -u
SD=$1; shift
W=$(mktemp -d /tmp/seedwt.XXXXXX)
trap 'git -C /repo worktree remove --force "$W" >/dev/null 2>&1; rm -rf "$W"' EXIT
git -C /repo worktree add -q --detach "$W" HEAD
cd "$W"
PYTHONPATH="$W/src" /venv/bin/python "$SD/demo.py" >/dev/null 2>&1; echo "demo on unchanged tree: exit $?"
if ! git apply "$SD/patch.diff" 2>/dev/null; then
  if ! patch -p1 --no-backup-if-mismatch < "$SD/patch.diff" >/dev/null 2>&1; then echo "PATCH DOES NOT APPLY"; exit 9; fi
fi
DEMO_FAST=1 PYTHONPATH="$W/src" timeout 300 /venv/bin/python "$SD/demo.py" >/dev/null 2>&1; echo "demo on changed tree:   exit $?"
python3 /verif/tools/baseline_check.py "$W" | head -3
cd /verif
for P in "$@"; do
  PYVC_REPO_SRC="$W/src/engineio" PYVC_NO_EVIDENCE=1 ./check "$P" --jobs 14 | grep -v "^KNOWN" | grep "VIOLATION\|UNDECIDED\|CHECKER\|obligations" | cut -c1-230 | head -8
done
