#!/bin/sh
# usage: tools/mutate.sh <PROP> <file relative to src/engineio> <python-regex-or-literal old> <new>
# applies one textual mutation to a scratch copy of the sources and runs the check against it
set -e
D=$(mktemp -d)
trap 'rm -rf "$D"' EXIT
cp -r /repo/src/engineio "$D/engineio"
python3 - "$D/engineio/$2" "$3" "$4" <<'PY'
import sys
p, old, new = sys.argv[1:4]
s = open(p).read()
if old not in s:
    print('MUTATION TARGET NOT FOUND'); sys.exit(9)
s = s.replace(old, new, 1)
open(p, 'w').write(s)
PY
cd /verif
PYVC_REPO_SRC="$D/engineio" PYVC_NO_EVIDENCE=1 ./check "$1" | grep -v "^KNOWN" | tail -${TAILN:-4}
